"""Per-program translation validation worker for C19."""
import base64
import itertools
import random
import struct
import time
import traceback

import z3

import wasmparse
import symexec
from arcref import (Ref, RefUnsupported, INT_T, FLOAT_T, bits, signed, cw, canon, is_int,
                    is_float, tmax, typeof)

DEV_FLAGS = ["nowrap", "castraw", "sdivtrap", "ftrunctrap", "unarypow"]


# ---------------------------------------------------------------- feature scan
def walk_exprs_in_stmts(stmts):
    for s in stmts:
        k = s[0]
        if k == "decl":
            yield s[3]
        elif k == "sdecl":
            yield s[3]
        elif k == "assign":
            yield s[2]
        elif k == "cassign":
            yield ("bin", s[2], ("v", s[1], s[4]), s[3])
        elif k == "if":
            yield s[1]
            yield from walk_exprs_in_stmts(s[2])
            for (c, b) in s[3]:
                yield c
                yield from walk_exprs_in_stmts(b)
            if s[4] is not None:
                yield from walk_exprs_in_stmts(s[4])
        elif k == "ret":
            yield s[1]
        elif k == "forrange":
            if s[3] is not None:
                yield s[3]
            yield s[4]
            yield ("bin", "+", ("v", s[1], s[2]), ("lit", 1, s[2]))
            yield from walk_exprs_in_stmts(s[5])
        elif k == "while":
            yield s[1]
            yield from walk_exprs_in_stmts(s[2])


def subexprs(e):
    yield e
    k = e[0]
    if k == "bin":
        yield from subexprs(e[2])
        yield from subexprs(e[3])
    elif k in ("pow", "neg", "not"):
        yield from subexprs(e[1])
    elif k == "cmp":
        yield from subexprs(e[2])
        yield from subexprs(e[3])
    elif k in ("and", "or"):
        yield from subexprs(e[1])
        yield from subexprs(e[2])
    elif k == "cast":
        yield from subexprs(e[2])
    elif k == "call":
        for a in e[2]:
            yield from subexprs(a)


def features(prog):
    """Which deviation flags can possibly matter + coarse feature tags."""
    flags = set()
    feats = set()
    for f in prog["funcs"]:
        for (_, t) in f["params"]:
            if is_int(t) and bits(t) < 32:
                flags.add("nowrap")
        for top in walk_exprs_in_stmts(f["body"]):
            for e in subexprs(top):
                k = e[0]
                t = typeof(e)
                if is_int(t) and bits(t) < 32 and k in ("bin", "neg", "pow"):
                    flags.add("nowrap")
                if k == "cast":
                    s = typeof(e[2])
                    if is_int(s) and is_int(t):
                        flags.add("castraw")
                        flags.add("nowrap")
                    if is_float(s) and is_int(t):
                        flags.add("ftrunctrap")
                    if is_int(s) and is_float(t):
                        flags.add("nowrap")
                    feats.add("cast")
                if k == "bin" and e[1] == "/" and is_int(t) and signed(t):
                    flags.add("sdivtrap")
                if k in ("neg", "not") and e[1][0] == "pow":
                    flags.add("unarypow")
                if k == "bin":
                    feats.add("op" + e[1] + ":" + t)
                    if e[1] in "*/%" and is_int(t) and bits(t) == 64 and \
                            e[2][0] != "lit" and e[3][0] != "lit":
                        feats.add("sym64muldiv")
    return flags, feats


# ---------------------------------------------------------------- value plumbing
def mk_param(name, t, k):
    if is_float(t):
        return z3.FP("%s_%d" % (name, k), FLOAT_T[t])
    return z3.BitVec("%s_%d" % (name, k), bits(t))


def container_of(t, var):
    if is_float(t):
        return var
    return canon(t, var)


def boundary(t):
    if is_float(t):
        return [0.0, 1.0, -1.5, 1e10, -0.0, 3.75, -7.0, 65536.5]
    n = bits(t)
    m = (1 << n) - 1
    return [0, 1, 2, m >> 1, (m >> 1) + 1, m, 3, m - 1, 7]


def float_bits(t, x):
    if t == "f32":
        return struct.unpack("<I", struct.pack("<f", x))[0]
    return struct.unpack("<Q", struct.pack("<d", x))[0]


def val_term(t, raw):
    """z3 value of param var from raw N-bit pattern (int) / IEEE bits (float)."""
    if is_float(t):
        return z3.fpBVToFP(z3.BitVecVal(raw, bits(t)), FLOAT_T[t])
    return z3.BitVecVal(raw, bits(t))


def abi_arg(t, raw):
    """uint64 passed to wazero for a param of Arc type t holding N-bit pattern raw:
    canonical container (sign-/zero-extended to 32 bits; i32 params use the low 32)."""
    if is_float(t):
        return raw
    n = bits(t)
    if n >= 32:
        return raw
    if signed(t) and raw >> (n - 1):
        return (raw | (0xFFFFFFFF << n)) & 0xFFFFFFFF
    return raw


def concrete(term, subs):
    r = z3.simplify(z3.substitute(term, *subs)) if subs else z3.simplify(term)
    if z3.is_bv_value(r) or z3.is_true(r) or z3.is_false(r) or z3.is_fp_value(r):
        return r
    s = z3.Solver()
    for (v, c) in subs:
        s.add(v == c)
    if s.check() != z3.sat:
        raise RuntimeError("concrete evaluation failed")
    return s.model().eval(term, model_completion=True)


def outcome_str(rt, trap, val, subs):
    """Canonical outcome string of one invocation at concrete subs."""
    if z3.is_true(concrete(trap, subs)):
        return "trap"
    v = concrete(val, subs)
    if is_float(rt):
        if z3.is_true(z3.simplify(z3.fpIsNaN(v))):
            return "f:nan"
        b = z3.simplify(z3.fpToIEEEBV(v))
        return "f:%d" % b.as_long()
    return "v:%d" % (v.as_long() & ((1 << bits(rt)) - 1))


def real_outcome_str(rt, callout):
    if callout.get("trap"):
        return "trap"
    raw = int(callout["results"][0])
    if is_float(rt):
        n = bits(rt)
        raw &= (1 << n) - 1
        ebits, mbits = (8, 23) if n == 32 else (11, 52)
        exp = (raw >> mbits) & ((1 << ebits) - 1)
        if exp == (1 << ebits) - 1 and raw & ((1 << mbits) - 1):
            return "f:nan"
        return "f:%d" % raw
    return "v:%d" % (raw & ((1 << bits(rt)) - 1))


def low(rt, v):
    if is_float(rt):
        return v
    n = bits(rt)
    return z3.Extract(n - 1, 0, v) if v.size() > n else v


# ---------------------------------------------------------------- wasm side
def merge_paths(paths, rt):
    rets = [p for p in paths if p["kind"] == "ret"]
    trap = z3.Or(*[z3.And(*p["pc"]) if p["pc"] else z3.BoolVal(True)
                   for p in paths if p["kind"] == "trap"]) \
        if any(p["kind"] == "trap" for p in paths) else z3.BoolVal(False)
    exc = z3.Or(*[z3.And(*p["pc"]) if p["pc"] else z3.BoolVal(True)
                  for p in paths if p["kind"] == "exceeded"]) \
        if any(p["kind"] == "exceeded" for p in paths) else z3.BoolVal(False)
    val = None
    store = None
    for p in rets:
        cond = z3.And(*p["pc"]) if p["pc"] else z3.BoolVal(True)
        v = p["values"][0]
        if val is None:
            val = v
            store = dict(p["store"])
        else:
            val = z3.If(cond, v, val)
            if set(store) != set(p["store"]):
                raise wasmparse.Unsupported("stateful key set differs between paths")
            for key in store:
                if not store[key].eq(p["store"][key]):
                    store[key] = z3.If(cond, p["store"][key], store[key])
    if val is None:
        val = z3.FPVal(0.0, FLOAT_T[rt]) if is_float(rt) else z3.BitVecVal(0, cw(rt))
        store = {}
    return trap, val, exc, store


def check_program(job):
    """job: dict(prog, wasm_b64, unroll, timeout_ms, nvec, seed, classify)
    Returns a plain-data result dict."""
    t0 = time.time()
    prog = job["prog"]
    res = {"id": prog["id"], "verdict": None, "reason": "", "solver_s": 0.0, "vectors": [],
           "cex": None, "class": None, "opcodes": [], "host_calls": [], "paths": 0}
    try:
        return _check(job, res, t0)
    except (wasmparse.Unsupported, symexec.PathLimit) as e:
        res["verdict"] = "inconclusive"
        res["reason"] = "executor: %s" % e
        if isinstance(e, wasmparse.Unsupported):
            res["unsupported"] = str(e)
    except RefUnsupported as e:
        res["verdict"] = "inconclusive"
        res["reason"] = "reference: %s" % e
    except Exception as e:  # noqa
        res["verdict"] = "broken"
        res["reason"] = "%s: %s\n%s" % (type(e).__name__, e, traceback.format_exc()[-1500:])
    res["wall_s"] = time.time() - t0
    return res


def _wasm_side(job, mod, fmain, params_by_call):
    prog = job["prog"]
    ex = symexec.Executor(mod, unroll=job["unroll"])
    fidx = mod.exports[prog["main"]]
    rt = fmain["ret"]
    store = {}
    outs = []
    for k in range(prog["ncalls"]):
        args = [container_of(t, v) for ((_, t), v) in zip(fmain["params"], params_by_call[k])]
        paths = ex.run_function(fidx, args, store=store)
        trap, val, exc, store = merge_paths(paths, rt)
        outs.append({"trap": trap, "value": val, "exceeded": exc})
    return ex, outs


def _ref_side(prog, fmain, params_by_call, dev, unroll):
    ref = Ref(prog, dev=frozenset(dev), unroll=unroll)
    outs = []
    for k in range(prog["ncalls"]):
        args = [container_of(t, v) for ((_, t), v) in zip(fmain["params"], params_by_call[k])]
        outs.append(ref.invoke(prog["main"], args))
    return outs


def _formulas(rt, wouts, routs):
    alive = z3.BoolVal(True)
    mism, pre, exc = [], [], []
    for w, r in zip(wouts, routs):
        differ = z3.Or(w["trap"] != r["trap"],
                       z3.And(z3.Not(w["trap"]), z3.Not(r["trap"]),
                              low(rt, w["value"]) != low(rt, r["value"])))
        mism.append(z3.And(alive, differ))
        pre.append(z3.Implies(alive, r["pre"]))
        exc.append(z3.And(alive, z3.Or(w["exceeded"], r["exceeded"])))
        alive = z3.And(alive, z3.Not(w["trap"]), z3.Not(r["trap"]))
    return z3.Or(*mism), z3.And(*pre), z3.Or(*exc)


_NL_BIN = {z3.Z3_OP_BSDIV: "sdiv", z3.Z3_OP_BUDIV: "udiv", z3.Z3_OP_BSREM: "srem",
           z3.Z3_OP_BUREM: "urem", z3.Z3_OP_BSMOD: "smod", z3.Z3_OP_BSDIV_I: "sdiv_i",
           z3.Z3_OP_BUDIV_I: "udiv_i", z3.Z3_OP_BSREM_I: "srem_i", z3.Z3_OP_BUREM_I: "urem_i",
           z3.Z3_OP_BSMOD_I: "smod_i"}
_UF = {}


def _uf(name, w):
    key = (name, w)
    if key not in _UF:
        srt = z3.BitVecSort(w)
        _UF[key] = z3.Function("abs_%s_%d" % (name, w), srt, srt, srt)
    return _UF[key]


def abstract_nl(f):
    """Replace symbolic*symbolic multiplication and division/remainder by a symbolic
    divisor with uninterpreted functions (+ sound lemma instances for 0/1 operands).
    Every model of the original formula is a model of the abstraction, so UNSAT of the
    abstraction proves UNSAT of the original (sound for proving equivalence; SAT
    answers of the abstraction are never used)."""
    memo = {}
    lemmas = []
    f = z3.simplify(f)

    def mul(w, a, b):
        r = _uf("mul", w)(a, b)
        zero, one = z3.BitVecVal(0, w), z3.BitVecVal(1, w)
        lemmas.append(z3.Implies(a == zero, r == zero))
        lemmas.append(z3.Implies(b == zero, r == zero))
        lemmas.append(z3.Implies(a == one, r == b))
        lemmas.append(z3.Implies(b == one, r == a))
        lemmas.append(r == _uf("mul", w)(b, a))
        return r

    def go(e):
        i = e.get_id()
        if i in memo:
            return memo[i]
        if not z3.is_app(e) or e.num_args() == 0:
            memo[i] = e
            return e
        kids = [go(c) for c in e.children()]
        k = e.decl().kind()
        r = None
        if k == z3.Z3_OP_BMUL:
            consts = [c for c in kids if z3.is_bv_value(c)]
            syms = [c for c in kids if not z3.is_bv_value(c)]
            if len(syms) >= 2:
                w = e.size()
                acc = syms[0]
                for c in syms[1:]:
                    acc = mul(w, acc, c)
                for c in consts:
                    acc = c * acc
                r = acc
        elif k in _NL_BIN and not z3.is_bv_value(kids[1]):
            w = e.size()
            r = _uf(_NL_BIN[k], w)(kids[0], kids[1])
            if _NL_BIN[k] in ("sdiv", "udiv", "sdiv_i", "udiv_i"):
                lemmas.append(z3.Implies(kids[1] == z3.BitVecVal(1, w), r == kids[0]))
        if r is None:
            r = e.decl()(*kids) if kids else e
        memo[i] = r
        return r

    g = go(f)
    return z3.And(g, *lemmas) if lemmas else g


def _has_fp(f):
    seen = set()
    stack = [f]
    while stack:
        e = stack.pop()
        i = e.get_id()
        if i in seen:
            continue
        seen.add(i)
        if z3.is_fp(e) or z3.is_fprm(e):
            return True
        stack.extend(e.children())
    return False


def _solve(constraints, timeout_ms, abstract_first=True):
    """Returns (result, solver, seconds). Portfolio: (1) UNSAT attempt on the UF
    abstraction of non-linear bit-vector operators, (2) precise QF_BV solver,
    (3) z3 default solver."""
    t = time.time()
    f = z3.And(*constraints)
    fp = _has_fp(f)
    if abstract_first and not fp:
        try:
            a = abstract_nl(f)
            sa = z3.Solver()
            sa.set("timeout", max(2000, timeout_ms // 3))
            sa.add(a)
            if sa.check() == z3.unsat:
                return z3.unsat, sa, time.time() - t
        except z3.Z3Exception:
            pass
    r = z3.unknown
    s = None
    if not fp:
        s = z3.SolverFor("QF_BV")
        s.set("timeout", timeout_ms)
        s.add(f)
        r = s.check()
    if r == z3.unknown:
        s = z3.Solver()
        s.set("timeout", timeout_ms)
        s.add(f)
        r = s.check()
    return r, s, time.time() - t


def _witness_search(fmain, params_by_call, formula, rng, tries=160):
    allp = [(t, var) for call in params_by_call
            for ((_, t), var) in zip(fmain["params"], call)]
    for j in range(tries):
        subs = []
        for i, (t, var) in enumerate(allp):
            bset = boundary(t)
            if is_float(t):
                raw = float_bits(t, rng.choice(bset + [rng.uniform(-300, 300), rng.uniform(-1e11, 1e11)]))
            else:
                mode = rng.random()
                n = bits(t)
                if mode < 0.35:
                    raw = rng.choice(bset)
                elif mode < 0.6:  # low byte / half zero or all ones, random upper part
                    raw = rng.getrandbits(n) & ~((1 << (n // 2)) - 1) & ((1 << n) - 1)
                    if rng.random() < 0.5 and n >= 16:
                        raw |= rng.choice([0, 0x80, 0xFF, 0x100])
                elif mode < 0.8:
                    raw = rng.getrandbits(min(n, 9))
                else:
                    raw = rng.getrandbits(n)
            subs.append((var, val_term(t, raw)))
        try:
            if z3.is_true(concrete(formula, subs)):
                return {var.get_id(): z3.simplify(val) for (var, val) in subs}
        except Exception:  # noqa
            continue
    return None


def _check(job, res, t0):
    prog = job["prog"]
    fmain = [f for f in prog["funcs"] if f["name"] == prog["main"]][0]
    rt = fmain["ret"]
    mod = wasmparse.parse(base64.b64decode(job["wasm_b64"]))
    if prog["main"] not in mod.exports:
        res["verdict"] = "broken"
        res["reason"] = "export %s missing" % prog["main"]
        return res
    params_by_call = [[mk_param(n, t, k) for (n, t) in fmain["params"]]
                      for k in range(prog["ncalls"])]
    ex, wouts = _wasm_side(job, mod, fmain, params_by_call)
    res["opcodes"] = sorted(ex.opcodes_seen)
    res["host_calls"] = sorted(ex.host_calls)
    res["paths"] = ex.paths
    routs = _ref_side(prog, fmain, params_by_call, (), job["unroll"])
    mism, pre, exc = _formulas(rt, wouts, routs)

    # ---- concrete vectors for translator validation (executor vs real wazero)
    rng = random.Random(job["seed"] * 100003 + int(prog["id"][1:]))
    for j in range(job["nvec"]):
        subs, calls = [], []
        for k in range(prog["ncalls"]):
            args = []
            for i, ((n, t), var) in enumerate(zip(fmain["params"], params_by_call[k])):
                bset = boundary(t)
                if j < job["nvec"] - 2:
                    raw = bset[(j + 2 * i + 3 * k) % len(bset)]
                    if is_float(t):
                        raw = float_bits(t, raw)
                elif is_float(t):
                    raw = float_bits(t, rng.choice([rng.uniform(-100, 100), rng.uniform(-1e6, 1e6)]))
                else:
                    raw = rng.getrandbits(bits(t))
                subs.append((var, val_term(t, raw)))
                args.append(str(abi_arg(t, raw)))
            calls.append({"func": prog["main"], "args": args})
        pred, refo = [], []
        alive = True
        for k in range(prog["ncalls"]):
            if not alive:
                break
            o = outcome_str(rt, wouts[k]["trap"], wouts[k]["value"], subs)
            if z3.is_true(concrete(wouts[k]["exceeded"], subs)):
                o = "exceeded"
            pred.append(o)
            if o in ("trap", "exceeded"):
                alive = False
        res["vectors"].append({"calls": calls[:len(pred)], "pred": pred,
                               "skip": "exceeded" in pred})

    # ---- unwinding assertion
    r, s, dt = _solve([pre, exc], job["timeout_ms"])
    res["solver_s"] += dt
    if r != z3.unsat:
        res["verdict"] = "inconclusive"
        res["reason"] = "loop may exceed unroll bound %d (%s)" % (job["unroll"], r)
        res["wall_s"] = time.time() - t0
        return res
    # ---- equivalence query
    r, s, dt = _solve([pre, mism], job["timeout_ms"])
    res["solver_s"] += dt
    if r == z3.unsat:
        res["verdict"] = "equivalent"
    witness = None
    if r == z3.unknown:
        # The solver gave up. A concrete witness of `pre and mismatch` is still a valid
        # counterexample candidate (it is replayed on the real module like a model);
        # without one the program stays inconclusive - never "passed".
        witness = _witness_search(fmain, params_by_call, z3.And(pre, mism), rng)
        if witness is None:
            res["verdict"] = "inconclusive"
            res["reason"] = "solver unknown/timeout (%s)" % s.reason_unknown()
    if r == z3.sat or witness is not None:
        m = s.model() if r == z3.sat else None
        subs, calls, shown = [], [], []
        for k in range(prog["ncalls"]):
            args, sh = [], []
            for ((n, t), var) in zip(fmain["params"], params_by_call[k]):
                mv = m.eval(var, model_completion=True) if m is not None else witness[var.get_id()]
                if is_float(t):
                    if z3.is_true(z3.simplify(z3.fpIsNaN(mv))):
                        raw = 0x7FC00000 if t == "f32" else 0x7FF8000000000000
                    else:
                        raw = z3.simplify(z3.fpToIEEEBV(mv)).as_long()
                    sh.append("%s=%s" % (n, mv))
                else:
                    raw = mv.as_long()
                    sv = raw - (1 << bits(t)) if signed(t) and raw >> (bits(t) - 1) else raw
                    sh.append("%s=%d" % (n, sv))
                subs.append((var, val_term(t, raw)))
                args.append(str(abi_arg(t, raw)))
            calls.append({"func": prog["main"], "args": args})
            shown.append(", ".join(sh))
        expected, predicted = [], []
        for k in range(prog["ncalls"]):
            e = outcome_str(rt, routs[k]["trap"], routs[k]["value"], subs)
            p = outcome_str(rt, wouts[k]["trap"], wouts[k]["value"], subs)
            expected.append(e)
            predicted.append(p)
            if e == "trap" or p == "trap":
                break
        res["verdict"] = "sat"
        res["cex"] = {"calls": calls[:len(expected)], "args_shown": shown[:len(expected)],
                      "expected": expected, "predicted": predicted}
        # ---- classify by deviation
        if job.get("classify", True):
            flags, _ = features(prog)
            cands = []
            fl = [f for f in DEV_FLAGS if f in flags]
            for n in range(1, len(fl) + 1):
                cands.extend(itertools.combinations(fl, n))
            res["class"] = "unexplained (family %s)" % prog["family"]
            any_unknown = False
            consistent = None
            for dev in cands:
                try:
                    r2outs = _ref_side(prog, fmain, params_by_call, dev, job["unroll"])
                except RefUnsupported:
                    continue
                m2, p2, e2 = _formulas(rt, wouts, r2outs)
                if time.time() - t0 > 120:
                    r2 = z3.unknown  # out of time: only the concrete consistency check
                else:
                    r2, _, dt2 = _solve([p2, m2], min(job["timeout_ms"], 8000))
                    res["solver_s"] += dt2
                if r2 == z3.unsat:
                    res["class"] = "+".join(dev)
                    any_unknown = False
                    consistent = None
                    break
                if r2 == z3.unknown:
                    # Not decided by the solver. Evaluate this deviation's reference at
                    # the counterexample: if it disagrees with the compiled module
                    # there (and the cex lies in its domain) the candidate is refuted
                    # just like a SAT answer; if it agrees it stays undetermined.
                    try:
                        in_domain = z3.is_true(concrete(p2, subs))
                        exp2 = []
                        for k in range(len(predicted)):
                            exp2.append(outcome_str(rt, r2outs[k]["trap"],
                                                    r2outs[k]["value"], subs))
                        if not in_domain:
                            any_unknown = True
                        elif exp2 == predicted:
                            any_unknown = True
                            if consistent is None:
                                consistent = "+".join(dev)
                    except Exception:  # noqa
                        any_unknown = True
            if any_unknown:
                if consistent:
                    res["class"] = "unclassified(timeout; consistent-with:%s)" % consistent
                else:
                    res["class"] = "unclassified(timeout)"
    res["wall_s"] = time.time() - t0
    return res
