"""Minimal WebAssembly 1.0 binary parser (type/import/function/memory/global/export/
code/data sections) producing a structured instruction tree for the C19 symbolic
executor. Written from the binary-format chapter of the WebAssembly core spec."""
import struct

I32, I64, F32, F64 = 0x7F, 0x7E, 0x7D, 0x7C
VT_NAME = {I32: "i32", I64: "i64", F32: "f32", F64: "f64"}


class WasmError(Exception):
    pass


class Unsupported(WasmError):
    pass


class Reader:
    def __init__(self, data, pos=0, end=None):
        self.d = data
        self.p = pos
        self.end = len(data) if end is None else end

    def eof(self):
        return self.p >= self.end

    def byte(self):
        if self.p >= self.end:
            raise WasmError("unexpected end of section")
        b = self.d[self.p]
        self.p += 1
        return b

    def bytes(self, n):
        if self.p + n > self.end:
            raise WasmError("unexpected end of section")
        b = self.d[self.p:self.p + n]
        self.p += n
        return b

    def u(self, bits=32):
        result = 0
        shift = 0
        while True:
            b = self.byte()
            result |= (b & 0x7F) << shift
            shift += 7
            if not (b & 0x80):
                break
            if shift > bits + 7:
                raise WasmError("LEB128 too long")
        return result

    def s(self, bits):
        result = 0
        shift = 0
        while True:
            b = self.byte()
            result |= (b & 0x7F) << shift
            shift += 7
            if not (b & 0x80):
                if b & 0x40:
                    result -= 1 << shift
                break
            if shift > bits + 7:
                raise WasmError("LEB128 too long")
        return result

    def name(self):
        n = self.u()
        return self.bytes(n).decode("utf-8")


class FuncType:
    def __init__(self, params, results):
        self.params = params
        self.results = results

    def __repr__(self):
        return "(%s)->(%s)" % (",".join(VT_NAME[p] for p in self.params),
                               ",".join(VT_NAME[r] for r in self.results))


class Instr:
    __slots__ = ("op", "imm", "body", "els", "bt")

    def __init__(self, op, imm=None, body=None, els=None, bt=None):
        self.op = op
        self.imm = imm
        self.body = body
        self.els = els
        self.bt = bt

    def __repr__(self):
        return "Instr(0x%02x,%r)" % (self.op, self.imm)


class Func:
    def __init__(self, index, typ, locals_, body, imported=None):
        self.index = index
        self.type = typ
        self.locals = locals_  # list of value types (declared locals, excluding params)
        self.body = body  # list of Instr
        self.imported = imported  # (module, name) or None


class Module:
    def __init__(self):
        self.types = []
        self.funcs = []  # index space: imports first
        self.exports = {}  # name -> func index
        self.n_imports = 0
        self.has_memory = False
        self.globals = []
        self.data = []


# Opcodes with no immediates (numeric, parametric, control simple)
_NO_IMM = set([0x00, 0x01, 0x0F, 0x1A, 0x1B]) | set(range(0x45, 0xC5))
_MEM_OPS = set(range(0x28, 0x3F))


def _blocktype(r):
    b = r.d[r.p]
    if b == 0x40:
        r.p += 1
        return []
    if b in VT_NAME:
        r.p += 1
        return [b]
    raise Unsupported("block type index (multi-value) not supported")


def _parse_expr(r, terminators=(0x0B,)):
    """Parse instructions until one of terminators; returns (instrs, terminator)."""
    out = []
    while True:
        op = r.byte()
        if op in terminators:
            return out, op
        if op == 0x0B or op == 0x05:
            raise WasmError("unexpected end/else")
        if op in (0x02, 0x03):  # block, loop
            bt = _blocktype(r)
            body, _ = _parse_expr(r)
            out.append(Instr(op, bt=bt, body=body))
        elif op == 0x04:  # if
            bt = _blocktype(r)
            body, term = _parse_expr(r, (0x0B, 0x05))
            els = []
            if term == 0x05:
                els, _ = _parse_expr(r)
            out.append(Instr(op, bt=bt, body=body, els=els))
        elif op in (0x0C, 0x0D):  # br, br_if
            out.append(Instr(op, imm=r.u()))
        elif op == 0x0E:  # br_table
            n = r.u()
            labels = [r.u() for _ in range(n)]
            default = r.u()
            out.append(Instr(op, imm=(labels, default)))
        elif op == 0x10:  # call
            out.append(Instr(op, imm=r.u()))
        elif op == 0x11:
            raise Unsupported("call_indirect")
        elif op in (0x20, 0x21, 0x22, 0x23, 0x24):
            out.append(Instr(op, imm=r.u()))
        elif op in _MEM_OPS:
            align = r.u()
            off = r.u()
            out.append(Instr(op, imm=(align, off)))
        elif op in (0x3F, 0x40):
            r.byte()
            out.append(Instr(op))
        elif op == 0x41:
            out.append(Instr(op, imm=r.s(32)))
        elif op == 0x42:
            out.append(Instr(op, imm=r.s(64)))
        elif op == 0x43:
            out.append(Instr(op, imm=struct.unpack("<I", r.bytes(4))[0]))  # raw bits
        elif op == 0x44:
            out.append(Instr(op, imm=struct.unpack("<Q", r.bytes(8))[0]))  # raw bits
        elif op == 0xFC:
            sub = r.u()
            if sub <= 7:
                out.append(Instr(0xFC00 + sub))
            else:
                raise Unsupported("0xFC %d" % sub)
        elif op in _NO_IMM:
            out.append(Instr(op))
        else:
            raise Unsupported("opcode 0x%02x" % op)


def parse(data):
    if data[:4] != b"\x00asm" or data[4:8] != b"\x01\x00\x00\x00":
        raise WasmError("bad magic/version")
    m = Module()
    r = Reader(data, 8)
    func_type_idx = []
    imports = []
    code_bodies = []
    last_id = 0
    while not r.eof():
        sid = r.byte()
        size = r.u()
        sec = Reader(data, r.p, r.p + size)
        r.p += size
        if sid != 0:
            if sid <= last_id and sid != 12:
                raise WasmError("section order")
            last_id = sid
        if sid == 0:
            continue
        elif sid == 1:
            for _ in range(sec.u()):
                if sec.byte() != 0x60:
                    raise WasmError("expected functype")
                params = [sec.byte() for _ in range(sec.u())]
                results = [sec.byte() for _ in range(sec.u())]
                m.types.append(FuncType(params, results))
        elif sid == 2:
            for _ in range(sec.u()):
                mod = sec.name()
                nm = sec.name()
                kind = sec.byte()
                if kind == 0:
                    imports.append((mod, nm, sec.u()))
                elif kind == 2:
                    flag = sec.byte()
                    sec.u()
                    if flag & 1:
                        sec.u()
                    m.has_memory = True
                elif kind == 3:
                    sec.byte()
                    sec.byte()
                elif kind == 1:
                    sec.byte()
                    flag = sec.byte()
                    sec.u()
                    if flag & 1:
                        sec.u()
                else:
                    raise WasmError("bad import kind")
        elif sid == 3:
            func_type_idx = [sec.u() for _ in range(sec.u())]
        elif sid == 4:
            raise Unsupported("table section")
        elif sid == 5:
            for _ in range(sec.u()):
                flag = sec.byte()
                sec.u()
                if flag & 1:
                    sec.u()
            m.has_memory = True
        elif sid == 6:
            for _ in range(sec.u()):
                vt = sec.byte()
                mut = sec.byte()
                init, _ = _parse_expr(sec)
                m.globals.append((vt, mut, init))
        elif sid == 7:
            for _ in range(sec.u()):
                nm = sec.name()
                kind = sec.byte()
                idx = sec.u()
                if kind == 0:
                    m.exports[nm] = idx
        elif sid == 8:
            raise Unsupported("start section")
        elif sid == 9:
            raise Unsupported("element section")
        elif sid == 10:
            n = sec.u()
            for _ in range(n):
                bsize = sec.u()
                b = Reader(data, sec.p, sec.p + bsize)
                sec.p += bsize
                locs = []
                for _ in range(b.u()):
                    cnt = b.u()
                    vt = b.byte()
                    locs.extend([vt] * cnt)
                body, _ = _parse_expr(b)
                if not b.eof():
                    raise WasmError("trailing bytes in function body")
                code_bodies.append((locs, body))
        elif sid == 11:
            for _ in range(sec.u()):
                flag = sec.u()
                if flag == 0:
                    off, _ = _parse_expr(sec)
                    n = sec.u()
                    m.data.append((off, sec.bytes(n)))
                elif flag == 1:
                    n = sec.u()
                    m.data.append((None, sec.bytes(n)))
                else:
                    raise Unsupported("data segment flag %d" % flag)
        elif sid == 12:
            sec.u()
        else:
            raise WasmError("unknown section %d" % sid)
    if len(func_type_idx) != len(code_bodies):
        raise WasmError("function/code section length mismatch")
    for (mod, nm, ti) in imports:
        m.funcs.append(Func(len(m.funcs), m.types[ti], [], None, imported=(mod, nm)))
    m.n_imports = len(imports)
    for ti, (locs, body) in zip(func_type_idx, code_bodies):
        m.funcs.append(Func(len(m.funcs), m.types[ti], locs, body))
    return m
