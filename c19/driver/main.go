// C19 driver: compiles Arc programs with the real arc.CompileText, checks that the
// produced module validates/instantiates under wazero with the real STL host modules,
// and (run mode) executes exported functions on concrete arguments.
//
// Usage:
//
//	driver compile <in.json> <out.json>   in: [{"id":..,"source":..}]
//	driver run     <in.json> <out.json>   in: [{"id":..,"wasm":b64 | "source":.., "calls":[{"func":..,"args":["u64 decimal",..]}]}]
//
// "-" for a path means stdin/stdout. In run mode all calls of one job execute in order
// on ONE module instance (stateful variables persist across the calls of a job).
package main

import (
	"context"
	"encoding/base64"
	"encoding/json"
	"fmt"
	"io"
	"os"
	"sort"
	"strconv"

	"github.com/synnaxlabs/arc"
	"github.com/synnaxlabs/arc/text"
	stlchannels "github.com/synnaxlabs/arc/stl/channels"
	stlerrors "github.com/synnaxlabs/arc/stl/errors"
	stlmath "github.com/synnaxlabs/arc/stl/math"
	"github.com/synnaxlabs/arc/stl/series"
	"github.com/synnaxlabs/arc/stl/stateful"
	stlstrings "github.com/synnaxlabs/arc/stl/strings"
	stltime "github.com/synnaxlabs/arc/stl/time"
	"github.com/tetratelabs/wazero"
	"github.com/tetratelabs/wazero/api"
)

type compileIn struct {
	ID     string `json:"id"`
	Source string `json:"source"`
}

type compileOut struct {
	ID      string   `json:"id"`
	WASM    string   `json:"wasm,omitempty"`
	Exports []string `json:"exports,omitempty"`
	Error   string   `json:"error,omitempty"`
	// Stage is where Error happened: "parse"/"analyze" (front end rejected),
	// "compile" (analyzer accepted, code generator failed), "validate" (wazero
	// CompileModule failed), "instantiate".
	Stage string `json:"stage,omitempty"`
}

type call struct {
	Func string   `json:"func"`
	Args []string `json:"args"`
}

type runIn struct {
	ID     string `json:"id"`
	WASM   string `json:"wasm,omitempty"`
	Source string `json:"source,omitempty"`
	Calls  []call `json:"calls,omitempty"`
	// Seqs: several independent call sequences on the same instance; each sequence
	// runs under its own stateful node key (stateful.Host.SetNodeKey), i.e. with
	// fresh stateful variables, exactly how the runtime scopes state per node.
	Seqs [][]call `json:"seqs,omitempty"`
}

type callOut struct {
	Results []string `json:"results,omitempty"`
	Trap    string   `json:"trap,omitempty"`
}

type runOut struct {
	ID    string      `json:"id"`
	Error string      `json:"error,omitempty"`
	Calls []callOut   `json:"calls,omitempty"`
	Seqs  [][]callOut `json:"seqs,omitempty"`
}

// bindHostModules binds the real STL host modules exactly like
// arc/go/compiler/compiler_test.go:bindDefaultModules does.
func bindHostModules(ctx context.Context, r wazero.Runtime) (*stlstrings.Host, *stlerrors.Host, *stateful.Host, error) {
	stringsState := stlstrings.NewProgramState()
	seriesState := series.NewProgramState()
	channelState := stlchannels.NewProgramState(nil)
	statefulMod, err := stateful.NewHost(ctx, r, seriesState, stringsState)
	if err != nil {
		return nil, nil, nil, err
	}
	if _, err := series.NewHost(ctx, r, seriesState); err != nil {
		return nil, nil, nil, err
	}
	stringsMod, err := stlstrings.NewHost(ctx, r, stringsState, nil)
	if err != nil {
		return nil, nil, nil, err
	}
	if _, err = stlmath.NewHost(ctx, r); err != nil {
		return nil, nil, nil, err
	}
	errorsMod, err := stlerrors.NewHost(ctx, r, nil)
	if err != nil {
		return nil, nil, nil, err
	}
	if _, err = stltime.NewHost(ctx, r); err != nil {
		return nil, nil, nil, err
	}
	if _, err = stlchannels.NewHost(ctx, r, channelState, stringsState); err != nil {
		return nil, nil, nil, err
	}
	return stringsMod, errorsMod, statefulMod, nil
}

func compileSource(ctx context.Context, src string) (wasmBytes []byte, err error) {
	defer func() {
		if rec := recover(); rec != nil {
			err = fmt.Errorf("panic in arc.CompileText: %v", rec)
		}
	}()
	prog, err := arc.CompileText(ctx, arc.Text{Raw: src}, arc.NewRoot(nil))
	if err != nil {
		return nil, err
	}
	return prog.WASM, nil
}

// rejectStage classifies a CompileText failure: "parse" / "analyze" mean the front end
// rejected the program (fine); "compile" means the analyzer ACCEPTED the program but
// the code generator failed (a C19 violation: accepted programs must compile).
func rejectStage(ctx context.Context, src string) (stage string) {
	defer func() {
		if rec := recover(); rec != nil {
			stage = "compile"
		}
	}()
	parsed, err := text.Parse(arc.Text{Raw: src})
	if err != nil {
		return "parse"
	}
	if _, diag := text.Analyze(ctx, parsed, arc.NewRoot(nil)); !diag.Ok() {
		return "analyze"
	}
	return "compile"
}

func instantiate(ctx context.Context, wasmBytes []byte) (wazero.Runtime, api.Module, *stateful.Host, string, error) {
	r := wazero.NewRuntimeWithConfig(ctx, wazero.NewRuntimeConfigInterpreter())
	stringsMod, errorsMod, statefulMod, err := bindHostModules(ctx, r)
	if err != nil {
		_ = r.Close(ctx)
		return nil, nil, nil, "hostbind", err
	}
	cm, err := r.CompileModule(ctx, wasmBytes)
	if err != nil {
		_ = r.Close(ctx)
		return nil, nil, nil, "validate", err
	}
	mod, err := r.InstantiateModule(ctx, cm, wazero.NewModuleConfig().WithName("guest"))
	if err != nil {
		_ = r.Close(ctx)
		return nil, nil, nil, "instantiate", err
	}
	if mod.Memory() != nil {
		stringsMod.SetMemory(mod.Memory())
		errorsMod.SetMemory(mod.Memory())
	}
	return r, mod, statefulMod, "", nil
}

func doCompile(ctx context.Context, in []compileIn) []compileOut {
	out := make([]compileOut, len(in))
	for i, p := range in {
		o := compileOut{ID: p.ID}
		wasmBytes, err := compileSource(ctx, p.Source)
		if err != nil {
			o.Error, o.Stage = err.Error(), rejectStage(ctx, p.Source)
			out[i] = o
			continue
		}
		o.WASM = base64.StdEncoding.EncodeToString(wasmBytes)
		r, mod, _, stage, err := instantiate(ctx, wasmBytes)
		if err != nil {
			o.Error, o.Stage = err.Error(), stage
			out[i] = o
			continue
		}
		for name := range mod.ExportedFunctionDefinitions() {
			o.Exports = append(o.Exports, name)
		}
		sort.Strings(o.Exports)
		_ = r.Close(ctx)
		out[i] = o
	}
	return out
}

func callOne(ctx context.Context, mod api.Module, c call) (co callOut) {
	defer func() {
		if rec := recover(); rec != nil {
			co = callOut{Trap: fmt.Sprintf("panic: %v", rec)}
		}
	}()
	fn := mod.ExportedFunction(c.Func)
	if fn == nil {
		return callOut{Trap: "no such export: " + c.Func}
	}
	args := make([]uint64, len(c.Args))
	for i, a := range c.Args {
		v, err := strconv.ParseUint(a, 10, 64)
		if err != nil {
			return callOut{Trap: "bad arg: " + a}
		}
		args[i] = v
	}
	res, err := fn.Call(ctx, args...)
	if err != nil {
		return callOut{Trap: err.Error()}
	}
	rs := make([]string, len(res))
	for i, v := range res {
		rs[i] = strconv.FormatUint(v, 10)
	}
	return callOut{Results: rs}
}

func doRun(ctx context.Context, in []runIn) []runOut {
	out := make([]runOut, len(in))
	for i, job := range in {
		o := runOut{ID: job.ID}
		var wasmBytes []byte
		var err error
		if job.WASM != "" {
			wasmBytes, err = base64.StdEncoding.DecodeString(job.WASM)
		} else {
			wasmBytes, err = compileSource(ctx, job.Source)
		}
		if err != nil {
			o.Error = err.Error()
			out[i] = o
			continue
		}
		r, mod, st, stage, err := instantiate(ctx, wasmBytes)
		if err != nil {
			o.Error = stage + ": " + err.Error()
			out[i] = o
			continue
		}
		st.SetNodeKey("calls")
		for _, c := range job.Calls {
			o.Calls = append(o.Calls, callOne(ctx, mod, c))
		}
		for si, seq := range job.Seqs {
			st.SetNodeKey(fmt.Sprintf("seq%d", si))
			outs := make([]callOut, 0, len(seq))
			for _, c := range seq {
				outs = append(outs, callOne(ctx, mod, c))
			}
			o.Seqs = append(o.Seqs, outs)
		}
		_ = r.Close(ctx)
		out[i] = o
	}
	return out
}

func readAll(path string) []byte {
	var (
		b   []byte
		err error
	)
	if path == "-" {
		b, err = io.ReadAll(os.Stdin)
	} else {
		b, err = os.ReadFile(path)
	}
	if err != nil {
		fmt.Fprintln(os.Stderr, "read:", err)
		os.Exit(2)
	}
	return b
}

func writeAll(path string, v any) {
	b, err := json.Marshal(v)
	if err != nil {
		fmt.Fprintln(os.Stderr, "marshal:", err)
		os.Exit(2)
	}
	if path == "-" {
		_, _ = os.Stdout.Write(b)
		return
	}
	if err = os.WriteFile(path, b, 0o644); err != nil {
		fmt.Fprintln(os.Stderr, "write:", err)
		os.Exit(2)
	}
}

func main() {
	if len(os.Args) < 4 {
		fmt.Fprintln(os.Stderr, "usage: driver compile|run <in.json|-> <out.json|->")
		os.Exit(2)
	}
	ctx := context.Background()
	switch os.Args[1] {
	case "compile":
		var in []compileIn
		if err := json.Unmarshal(readAll(os.Args[2]), &in); err != nil {
			fmt.Fprintln(os.Stderr, "json:", err)
			os.Exit(2)
		}
		writeAll(os.Args[3], doCompile(ctx, in))
	case "run":
		var in []runIn
		if err := json.Unmarshal(readAll(os.Args[2]), &in); err != nil {
			fmt.Fprintln(os.Stderr, "json:", err)
			os.Exit(2)
		}
		writeAll(os.Args[3], doRun(ctx, in))
	default:
		fmt.Fprintln(os.Stderr, "unknown mode", os.Args[1])
		os.Exit(2)
	}
}
