module c19driver

go 1.26.3

replace (
	github.com/synnaxlabs/alamos => /repo/alamos/go
	github.com/synnaxlabs/arc => /repo/arc/go
	github.com/synnaxlabs/freighter => /repo/freighter/go
	github.com/synnaxlabs/x => /repo/x/go
)

require (
	github.com/synnaxlabs/arc v0.0.0
	github.com/tetratelabs/wazero v1.11.0
)

require (
	github.com/antlr4-go/antlr/v4 v4.13.1 // indirect
	github.com/cespare/xxhash/v2 v2.3.0 // indirect
	github.com/cockroachdb/errors v1.13.0 // indirect
	github.com/cockroachdb/logtags v0.0.0-20241215232642-bb51bb14a506 // indirect
	github.com/cockroachdb/redact v1.1.8 // indirect
	github.com/getsentry/sentry-go v0.46.2 // indirect
	github.com/gogo/protobuf v1.3.2 // indirect
	github.com/google/uuid v1.6.0 // indirect
	github.com/kr/pretty v0.3.1 // indirect
	github.com/kr/text v0.2.0 // indirect
	github.com/onsi/gomega v1.41.0 // indirect
	github.com/pkg/errors v0.9.1 // indirect
	github.com/rogpeppe/go-internal v1.14.1 // indirect
	github.com/samber/lo v1.53.0 // indirect
	github.com/synnaxlabs/alamos v0.0.0 // indirect
	github.com/synnaxlabs/x v0.0.0 // indirect
	github.com/vmihailenco/msgpack/v5 v5.4.1 // indirect
	github.com/vmihailenco/tagparser/v2 v2.0.0 // indirect
	go.opentelemetry.io/otel v1.43.0 // indirect
	go.opentelemetry.io/otel/trace v1.43.0 // indirect
	go.uber.org/multierr v1.11.0 // indirect
	go.uber.org/zap v1.28.0 // indirect
	golang.org/x/exp v0.0.0-20260508232706-74f9aab9d74a // indirect
	golang.org/x/sys v0.44.0 // indirect
	golang.org/x/text v0.37.0 // indirect
	google.golang.org/protobuf v1.36.11 // indirect
)
