"""Program generator for C19: systematic families + seeded random expression/statement
trees up to a depth bound. Produces dict programs:
  {id, family, funcs:[{name, params:[(n,T)], ret, body}], main, ncalls, source}
"""
import itertools
import random

from arcref import ALL_INT, INT_T, bits, signed, tmax, typeof, show_program, is_int, is_float

ARITH = ["+", "-", "*", "/", "%"]
CMPS = ["==", "!=", "<", ">", "<=", ">="]


def V(n, t):
    return ("v", n, t)


def L(v, t):
    return ("lit", v, t)


def B(op, a, b):
    return ("bin", op, a, b)


def C(op, a, b):
    return ("cmp", op, a, b)


def fn(name, params, ret, body):
    return {"name": name, "params": params, "ret": ret, "body": body}


def lits_for(t, big=True):
    if is_float(t):
        return [0.5, 2.0, 3.0]
    m = tmax(t)
    vals = set([1, 2, 3, 7, m, m // 2 + 1 if not signed(t) else m // 2])
    if not big:  # literals above i64 max are a known accepted-not-compiled class
        vals = set(v for v in vals if v <= (1 << 63) - 1)
    return sorted(vals)


def anchored(e):
    """True if the expression contains a variable or call, i.e. its literals get their
    type from a sibling operand rather than from defaults / outer hints."""
    k = e[0]
    if k in ("v", "call"):
        return True
    if k == "lit":
        return False
    if k == "bin":
        return anchored(e[2]) or anchored(e[3])
    if k in ("pow", "neg", "not"):
        return anchored(e[1])
    if k == "cmp":
        return anchored(e[2]) or anchored(e[3])
    if k in ("and", "or"):
        return anchored(e[1]) and anchored(e[2])
    if k == "cast":
        return anchored(e[2])
    return False


class Gen:
    def __init__(self, seed, tier):
        self.rng = random.Random(seed)
        self.tier = tier
        self.progs = []
        self.seen = set()

    def add(self, family, funcs, main="f", ncalls=1):
        p = {"family": family, "funcs": funcs, "main": main, "ncalls": ncalls}
        src = show_program(p)
        if src in self.seen:
            return
        self.seen.add(src)
        p["source"] = src
        p["id"] = "P%05d" % len(self.progs)
        self.progs.append(p)

    def expr_prog(self, family, params, ex):
        self.add(family, [fn("f", params, typeof(ex), [("ret", ex)])])

    # ------------------------------------------------------------------ families
    def fam_binops(self, types):
        for t in types:
            a, b = V("a", t), V("b", t)
            for op in ARITH:
                self.expr_prog("binop", [("a", t), ("b", t)], B(op, a, b))
                for lv in lits_for(t)[:3] + [tmax(t)]:
                    self.expr_prog("binop-lit", [("a", t)], B(op, a, L(lv, t)))
                self.expr_prog("binop-lit", [("a", t)], B(op, L(lits_for(t)[-1], t), a))
                self.expr_prog("binop-lit", [("a", t)], B(op, L(2, t), a))

    def fam_cmps(self, types):
        for t in types:
            a, b = V("a", t), V("b", t)
            for op in CMPS:
                self.expr_prog("cmp", [("a", t), ("b", t)], C(op, a, b))
                self.expr_prog("cmp-lit", [("a", t)], C(op, a, L(lits_for(t)[-2], t)))
                self.expr_prog("cmp-lit", [("a", t)], C(op, L(1, t), a))

    def fam_unary_pow(self, types):
        for t in types:
            a = V("a", t)
            self.expr_prog("neg", [("a", t)], ("neg", a))
            self.expr_prog("neg", [("a", t)], ("neg", ("neg", a)))
            self.expr_prog("neg", [("a", t), ("b", t)], B("*", a, ("neg", V("b", t))))
            self.expr_prog("neg", [("a", t), ("b", t)], B("-", a, ("neg", V("b", t))))
            self.expr_prog("neg", [("a", t), ("b", t)], ("neg", B("+", a, V("b", t))))
            for k in (0, 1, 2, 3):
                self.expr_prog("pow", [("a", t)], ("pow", a, k))
            self.expr_prog("pow-prec", [("a", t)], ("neg", ("pow", a, 2)))  # -a ^ 2
            self.expr_prog("pow-prec", [("a", t)], ("pow", ("neg", a), 2))  # (-a) ^ 2
            self.expr_prog("pow-prec", [("a", t)], ("neg", ("pow", a, 3)))
            self.expr_prog("pow-prec", [("a", t)], B("*", L(2, t), ("pow", a, 2)))
            self.expr_prog("pow-prec", [("a", t)], ("pow", B("*", L(2, t), a), 2))
            self.expr_prog("pow-prec", [("a", t)], B("+", ("pow", a, 2), L(1, t)))
        for t in ("u8",):
            a, b = V("a", t), V("b", t)
            self.expr_prog("not", [("a", t)], ("not", a))
            self.expr_prog("not", [("a", t)], ("not", ("not", a)))
            self.expr_prog("not", [("a", t), ("b", t)], C("==", ("not", a), b))  # not a == b
            self.expr_prog("not", [("a", t), ("b", t)], ("not", C("==", a, b)))

    def fam_casts(self, types):
        for s in types:
            for t in types:
                if s == t:
                    continue
                a = V("a", s)
                self.expr_prog("cast", [("a", s)], ("cast", t, a))
        for s in types:
            for t in types:
                if s == t:
                    continue
                a, b = V("a", s), V("b", s)
                self.expr_prog("cast-expr", [("a", s), ("b", s)], ("cast", t, B("+", a, b)))
                self.expr_prog("cast-expr", [("a", s), ("b", t)],
                               B("+", ("cast", t, a), V("b", t)))
                if self.tier == "thorough":
                    self.expr_prog("cast-expr", [("a", s), ("b", s)],
                                   ("cast", t, B("*", a, b)))
                    self.expr_prog("cast-expr", [("a", s), ("b", t)],
                                   C("<", ("cast", t, a), V("b", t)))
                    self.expr_prog("cast-expr", [("a", s)], ("cast", s, ("cast", t, a)))

    def fam_precedence(self, types, ops):
        for t in types:
            a, b, c = V("a", t), V("b", t), V("c", t)
            ps = [("a", t), ("b", t), ("c", t)]
            for o1, o2 in itertools.product(ops, ops):
                self.expr_prog("prec3", ps, B(o2, B(o1, a, b), c))  # a o1 b o2 c (left)
                self.expr_prog("prec3", ps, B(o1, a, B(o2, b, c)))  # parens or precedence
            for o1 in ops:
                for cop in ("<", "==", ">="):
                    self.expr_prog("prec-cmp", ps, C(cop, B(o1, a, b), c))
                    self.expr_prog("prec-cmp", ps, C(cop, a, B(o1, b, c)))

    def fam_logic(self):
        t = "u8"
        a, b, c = V("a", t), V("b", t), V("c", t)
        ps = [("a", t), ("b", t), ("c", t)]
        self.expr_prog("logic", ps[:2], ("and", a, b))
        self.expr_prog("logic", ps[:2], ("or", a, b))
        self.expr_prog("logic", ps, ("and", ("and", a, b), c))
        self.expr_prog("logic", ps, ("or", ("or", a, b), c))
        self.expr_prog("logic", ps, ("or", ("and", a, b), c))  # (a and b) or c
        self.expr_prog("logic", ps, ("and", a, ("or", b, c)))
        self.expr_prog("logic", ps, ("and", ("not", a), b))
        self.expr_prog("logic", ps, ("not", ("and", a, b)))
        self.expr_prog("logic", ps[:2], ("and", B("+", a, b), b))
        self.expr_prog("logic", ps[:2], ("or", B("+", a, b), L(0, t)))
        self.expr_prog("logic", ps[:2], B("+", ("and", a, b), ("or", a, b)))
        self.expr_prog("logic", ps[:2], C("==", ("and", a, b), L(1, t)))
        for ot in ("i8", "i32", "u16", "i64", "u64", "u8"):
            x, y = V("x", ot), V("y", ot)
            qs = [("x", ot), ("y", ot)]
            # short-circuit guards a trapping operand
            self.expr_prog("shortcircuit", qs,
                           ("and", C("!=", y, L(0, ot)), C(">", B("/", x, y), L(1, ot))))
            self.expr_prog("shortcircuit", qs,
                           ("or", C("==", y, L(0, ot)), C("==", B("%", x, y), L(0, ot))))
            self.expr_prog("shortcircuit", qs,
                           ("and", C(">", B("/", x, y), L(1, ot)), C("!=", y, L(0, ot))))
            self.expr_prog("logic-cmp", qs,
                           ("and", C(">=", x, L(2, ot)), C("<=", x, L(7, ot))))
            self.expr_prog("logic-cmp", qs,
                           ("or", C("<", x, y), ("and", C("==", x, y), C(">", x, L(3, ot)))))

    def fam_control(self, types):
        for t in types:
            x, y = V("x", t), V("y", t)
            ps = [("x", t), ("y", t)]
            lo, hi = L(3, t), L(7, t)
            # clamp with early returns
            self.add("if-early", [fn("f", [("x", t)], t, [
                ("if", C("<", x, lo), [("ret", lo)], [], None),
                ("if", C(">", x, hi), [("ret", hi)], [], None),
                ("ret", x)])])
            # if / else both return
            self.add("if-else", [fn("f", ps, t, [
                ("if", C(">", x, y), [("ret", B("-", x, y))], [], [("ret", B("-", y, x))])])])
            # else-if chain
            self.add("if-elif", [fn("f", ps, t, [
                ("decl", "r", t, L(0, t), True),
                ("if", C("==", x, y), [("assign", "r", L(1, t))],
                 [(C("<", x, y), [("assign", "r", L(2, t))])],
                 [("assign", "r", B("+", x, L(1, t)))]),
                ("ret", V("r", t))])])
            # nested partial returns
            self.add("if-nested", [fn("f", ps, t, [
                ("decl", "r", t, x, True),
                ("if", C(">", x, L(1, t)), [
                    ("if", C(">", y, L(1, t)), [("ret", B("+", x, y))], [], None),
                    ("assign", "r", B("*", x, L(2, t)))],
                 [], [("assign", "r", y)]),
                ("ret", B("+", V("r", t), L(1, t)))])])
            # elif without else, early return in elif
            self.add("if-elif", [fn("f", ps, t, [
                ("if", C("<", x, L(2, t)), [("ret", L(1, t))],
                 [(C("<", x, y), [("ret", y)])], None),
                ("ret", B("-", x, L(1, t)))])])

    def fam_locals(self, types):
        for t in types:
            x, y = V("x", t), V("y", t)
            ps = [("x", t), ("y", t)]
            for op in ARITH:
                self.add("compound", [fn("f", ps, t, [
                    ("decl", "r", t, x, True),
                    ("cassign", "r", op, y, t),
                    ("ret", V("r", t))])])
                self.add("compound", [fn("f", ps, t, [
                    ("decl", "r", t, B("+", x, L(1, t)), False),
                    ("cassign", "r", op, B("+", y, L(2, t)), t),
                    ("cassign", "r", "+", V("r", t), t),
                    ("ret", V("r", t))])])
            self.add("locals", [fn("f", ps, t, [
                ("decl", "p", t, B("*", x, y), False),
                ("decl", "q", t, B("-", V("p", t), x), False),
                ("assign", "p", B("+", V("q", t), V("p", t))),
                ("ret", B("-", V("p", t), V("q", t)))])])
            self.add("locals", [fn("f", ps, "u8", [
                ("decl", "p", t, B("+", x, y), False),
                ("decl", "c", "u8", C("<", V("p", t), x), False),
                ("ret", V("c", "u8"))])])

    def fam_stateful(self, types):
        for t in types:
            x = V("x", t)
            c = V("c", t)
            self.add("stateful", [fn("f", [("x", t)], t, [
                ("sdecl", "c", t, L(0, t)),
                ("assign", "c", B("+", c, x)),
                ("ret", c)])], ncalls=3)
            self.add("stateful", [fn("f", [("x", t)], t, [
                ("sdecl", "c", t, L(1, t)),
                ("cassign", "c", "*", x, t),
                ("ret", B("+", c, L(1, t)))])], ncalls=2)
            self.add("stateful", [fn("f", [("x", t)], t, [
                ("sdecl", "c", t, L(2, t)),
                ("decl", "old", t, c, False),
                ("if", C(">", x, c), [("assign", "c", x)], [], None),
                ("ret", V("old", t))])], ncalls=3)
            self.add("stateful", [fn("f", [("x", t)], "u8", [
                ("sdecl", "c", t, L(0, t)),
                ("sdecl", "n", "u8", L(0, "u8")),
                ("assign", "c", B("+", c, x)),
                ("cassign", "n", "+", L(1, "u8"), "u8"),
                ("ret", ("and", C(">", c, x), C("==", V("n", "u8"), L(2, "u8"))))])], ncalls=2)

    def fam_loops(self, types):
        for t in types:
            n = V("n", t)
            i = V("i", t)
            tot = V("tot", t)
            four = L(4, t)
            guard = ("if", C(">", n, four), [("ret", L(0, t))], [], None)
            self.add("loop-range", [fn("f", [("n", t)], t, [
                guard, ("decl", "tot", t, L(0, t), True),
                ("forrange", "i", t, None, n, [("assign", "tot", B("+", tot, i))]),
                ("ret", tot)])])
            self.add("loop-range", [fn("f", [("n", t), ("x", t)], t, [
                guard, ("decl", "tot", t, L(1, t), True),
                ("forrange", "i", t, ("cast", t, L(1, t)), n, [("cassign", "tot", "*", V("x", t), t)]),
                ("ret", tot)])])
            self.add("loop-range", [fn("f", [("x", t)], t, [
                ("decl", "tot", t, V("x", t), True),
                ("forrange", "i", t, None, ("cast", t, L(3, t)),
                 [("assign", "tot", B("+", B("*", tot, L(3, t)), i))]),
                ("ret", tot)])])
            self.add("loop-break", [fn("f", [("n", t), ("x", t)], t, [
                guard, ("decl", "tot", t, L(0, t), True),
                ("forrange", "i", t, None, n, [
                    ("if", C("==", i, V("x", t)), [("break",)], [], None),
                    ("if", C("==", i, L(1, t)), [("continue",)], [], None),
                    ("assign", "tot", B("+", tot, L(5, t)))]),
                ("ret", tot)])])
            self.add("loop-while", [fn("f", [("n", t)], t, [
                guard, ("decl", "k", t, n, True), ("decl", "tot", t, L(0, t), True),
                ("while", C(">", V("k", t), L(0, t)), [
                    ("assign", "tot", B("+", tot, V("k", t))),
                    ("assign", "k", B("-", V("k", t), L(1, t)))]),
                ("ret", tot)])])
            self.add("loop-return", [fn("f", [("n", t), ("x", t)], t, [
                guard,
                ("forrange", "i", t, None, n, [
                    ("if", C(">", B("*", i, V("x", t)), L(7, t)), [("ret", i)], [], None)]),
                ("ret", n)])])
        # break / continue in every arm of an if / else-if / else-if / else chain inside range and while loops:
        # the branch label of each depends on the block depth the compiler tracks per arm
        for t in types[:2]:
            n, i, tot, four = V("n", t), V("i", t), V("tot", t), L(4, t)
            guard = ("if", C(">", n, four), [("ret", L(0, t))], [], None)
            for arm in range(4):
                for jump in ("break", "continue"):
                    def blk(k, val):
                        b = [("assign", "tot", B("+", tot, L(val, t)))]
                        if k == arm:
                            b.append((jump,))
                        return b
                    chain = ("if", C("==", i, L(0, t)), blk(0, 1),
                             [(C("==", i, L(1, t)), blk(1, 2)), (C("==", i, L(2, t)), blk(2, 3))],
                             blk(3, 4))
                    self.add("loop-elif-jump", [fn("f", [("n", t)], t, [
                        guard, ("decl", "tot", t, L(0, t), True),
                        ("forrange", "i", t, None, n, [chain, ("assign", "tot", B("+", tot, L(10, t)))]),
                        ("ret", tot)])])
                    k = V("k", t)
                    wchain = ("if", C("==", k, L(0, t)), blk(0, 1),
                              [(C("==", k, L(1, t)), blk(1, 2)), (C("==", k, L(2, t)), blk(2, 3))],
                              blk(3, 4))
                    self.add("loop-elif-jump", [fn("f", [("n", t)], t, [
                        guard, ("decl", "k", t, L(0, t), True), ("decl", "tot", t, L(0, t), True),
                        ("while", C("<", k, n), [
                            ("assign", "k", B("+", k, L(1, t))),
                            wchain, ("assign", "tot", B("+", tot, L(10, t)))]),
                        ("ret", tot)])])
        # a loop whose bound cannot be proven: must come out INCONCLUSIVE, never passed
        self.add("loop-unbounded", [fn("f", [("n", "i32")], "i32", [
            ("decl", "tot", "i32", L(0, "i32"), True),
            ("forrange", "i", "i32", None, V("n", "i32"),
             [("assign", "tot", B("+", V("tot", "i32"), V("i", "i32")))]),
            ("ret", V("tot", "i32"))])])

    def fam_calls(self, types):
        for t in types:
            x, y = V("x", t), V("y", t)
            g = fn("g", [("p", t), ("q", t)], t, [
                ("if", C("<", V("p", t), V("q", t)), [("ret", V("q", t))], [], None),
                ("ret", B("-", V("p", t), V("q", t)))])
            self.add("call", [g, fn("f", [("x", t), ("y", t)], t, [
                ("ret", B("+", ("call", "g", [x, y], t), ("call", "g", [y, L(1, t)], t)))])])
            h = fn("h", [("p", t)], "u8", [("ret", C(">", V("p", t), L(2, t)))])
            self.add("call", [h, fn("f", [("x", t), ("y", t)], t, [
                ("if", ("and", ("call", "h", [x], "u8"), ("not", ("call", "h", [y], "u8"))),
                 [("ret", x)], [], None),
                ("ret", y)])])

    def fam_literal_typing(self):
        """Literal-typing shapes that the random generator deliberately avoids."""
        t = "u8"
        a = V("a", t)
        # spec.md "Boolean Semantics" examples: `2 and 3`, `5 or 0`
        self.add("literal-logic", [fn("f", [("a", t)], t, [
            ("decl", "r", t, ("and", L(2, t), L(3, t)), False), ("ret", V("r", t))])])
        self.add("literal-logic", [fn("f", [("a", t)], t, [
            ("decl", "r", t, ("or", L(5, t), L(0, t)), False), ("ret", V("r", t))])])
        self.add("literal-logic", [fn("f", [("a", t)], t, [("ret", ("and", a, L(3, t)))])])
        self.add("literal-logic", [fn("f", [("a", t)], t, [
            ("if", L(1, t), [("ret", a)], [], None), ("ret", L(0, t))])])
        # literal as FIRST operand below a typed context (cast / typed declaration)
        for outer, inner in (("u8", "i8"), ("i8", "u8"), ("u16", "i16"), ("u32", "i32"),
                             ("i32", "u32"), ("i64", "u64"), ("u64", "i64"), ("i64", "i32"),
                             ("u8", "u64"), ("i16", "i64")):
            x = V("x", inner)
            for op in ("/", "%", "*"):
                self.add("hint-literal-first", [fn("f", [("x", inner)], outer, [
                    ("ret", ("cast", outer, B(op, L(7, inner), x)))])])
            self.add("hint-literal-first", [fn("f", [("x", inner)], "u8", [
                ("decl", "r", "u8", C("<", L(3, inner), x), True), ("ret", V("r", "u8"))])])

    def fam_floats(self):
        for t in ("f32", "f64"):
            a, b = V("a", t), V("b", t)
            ps = [("a", t), ("b", t)]
            for op in ("+", "-"):
                self.expr_prog("float-arith", ps, B(op, a, b))
            self.expr_prog("float-arith", ps[:1], B("*", a, L(2.0, t)))
            self.expr_prog("float-arith", ps[:1], B("/", a, L(2.0, t)))
            self.expr_prog("float-arith", ps[:1], ("neg", a))
            self.expr_prog("float-arith", ps[:1], B("+", a, L(0.5, t)))
            for op in CMPS:
                self.expr_prog("float-cmp", ps, C(op, a, b))
            self.add("float-if", [fn("f", ps, t, [
                ("if", C("<", a, b), [("ret", b)], [], None), ("ret", a)])])
            for it in ALL_INT:
                self.expr_prog("float-cast", [("a", t)], ("cast", it, a))
                self.expr_prog("float-cast", [("x", it)], ("cast", t, V("x", it)))
        self.expr_prog("float-cast", [("a", "f32")], ("cast", "f64", V("a", "f32")))
        self.expr_prog("float-cast", [("a", "f64")], ("cast", "f32", V("a", "f64")))

    # ------------------------------------------------------------------ random
    def rand_leaf(self, t, env, allow_lit):
        r = self.rng
        same = [n for (n, vt) in env if vt == t]
        if same and (not allow_lit or r.random() < 0.75):
            return V(r.choice(same), t)
        if allow_lit and (not env or r.random() < 0.6):
            return L(r.choice(lits_for(t, big=False)), t)
        n, vt = r.choice(env)
        return ("cast", t, V(n, vt)) if vt != t else V(n, t)

    def rand_expr(self, t, depth, env, allow_lit=False):
        """env: list of (name, T). Returns an expression of type t. Unless allow_lit,
        the result is anchored (contains a variable). Literals only appear as the
        RIGHT operand of a binary operator / comparison whose left operand is anchored,
        so their type is fixed by the sibling operand (never by defaults or hints)."""
        r = self.rng
        if depth <= 0:
            return self.rand_leaf(t, env, allow_lit)
        choices = ["arith"] * 6 + ["neg", "pow", "cast", "cast", "leaf"]
        if t == "u8":
            choices += ["cmp"] * 5 + ["logic"] * 4 + ["not"] * 2
        c = r.choice(choices)
        if c == "leaf":
            return self.rand_leaf(t, env, allow_lit)
        if c == "arith":
            a = self.rand_expr(t, depth - 1, env)
            b = self.rand_expr(t, depth - 1, env, allow_lit=True)
            return B(r.choice(ARITH), a, b)
        if c == "neg":
            return ("neg", self.rand_expr(t, depth - 1, env))
        if c == "pow":
            return ("pow", self.rand_expr(t, depth - 1, env), r.choice([2, 2, 3]))
        if c == "cast":
            s = r.choice([x for x in ALL_INT if x != t])
            return ("cast", t, self.rand_expr(s, depth - 1, env))
        if c == "cmp":
            s = r.choice(ALL_INT)
            a = self.rand_expr(s, depth - 1, env)
            b = self.rand_expr(s, depth - 1, env, allow_lit=True)
            return C(r.choice(CMPS), a, b)
        if c == "logic":
            return (r.choice(["and", "or"]), self.rand_expr("u8", depth - 1, env),
                    self.rand_expr("u8", depth - 1, env))
        if c == "not":
            return ("not", self.rand_expr("u8", depth - 1, env))
        raise ValueError(c)

    def rand_params(self):
        r = self.rng
        n = r.choice([1, 2, 2, 3])
        # bias to few distinct types so operands combine
        base = r.choice(ALL_INT)
        ps = []
        for i in range(n):
            t = base if r.random() < 0.6 else r.choice(ALL_INT)
            ps.append(("abcd"[i], t))
        return ps

    def fam_random_expr(self, count, depth):
        made = 0
        tries = 0
        while made < count and tries < count * 20:
            tries += 1
            ps = self.rand_params()
            rt = self.rng.choice([t for (_, t) in ps] + ["u8"])
            ex = self.rand_expr(rt, depth, ps)
            if ex[0] in ("lit", "v"):
                continue
            n0 = len(self.progs)
            self.add("random-expr-d%d" % depth, [fn("f", ps, rt, [("ret", ex)])])
            made += len(self.progs) - n0

    def rand_block(self, ps, env, rt, depth, nstmts, in_loop=False):
        r = self.rng
        body = []
        env = list(env)
        for _ in range(nstmts):
            c = r.choice(["decl", "assign", "cassign", "if", "if", "ifret"])
            if c == "decl":
                t = r.choice([vt for (_, vt) in env])
                name = "v%d" % self.vcount
                self.vcount += 1
                ex = self.rand_expr(t, depth, env)
                body.append(("decl", name, t, ex, True))
                env.append((name, t))
                self.mutable.append((name, t))
            elif c in ("assign", "cassign") and self.mutable:
                name, t = r.choice(self.mutable)
                if (name, t) not in env:
                    continue
                ex = self.rand_expr(t, depth, env)
                if c == "assign":
                    body.append(("assign", name, ex))
                else:
                    body.append(("cassign", name, r.choice(ARITH), ex, t))
            elif c == "if" and depth > 0:
                cond = self.rand_expr("u8", depth, env)
                th = self.rand_block(ps, env, rt, depth - 1, r.choice([1, 2]))
                el = self.rand_block(ps, env, rt, depth - 1, 1) if r.random() < 0.5 else None
                if th:
                    body.append(("if", cond, th, [], el if el else None))
            elif c == "ifret":
                cond = self.rand_expr("u8", depth, env)
                body.append(("if", cond, [("ret", self.rand_expr(rt, depth, env))], [], None))
        return body

    def fam_random_stmt(self, count, depth):
        made = 0
        tries = 0
        while made < count and tries < count * 20:
            tries += 1
            ps = self.rand_params()
            rt = self.rng.choice([t for (_, t) in ps])
            self.vcount = 0
            self.mutable = []
            body = self.rand_block(ps, ps, rt, depth, self.rng.choice([2, 3, 4]))
            env = ps + [m for m in self.mutable if any(
                s[0] == "decl" and s[1] == m[0] for s in body)]
            body.append(("ret", self.rand_expr(rt, depth, env)))
            n0 = len(self.progs)
            self.add("random-stmt-d%d" % depth, [fn("f", ps, rt, body)])
            made += len(self.progs) - n0


def generate(tier, seed):
    g = Gen(seed, tier)
    ints = ALL_INT
    g.fam_binops(ints)
    g.fam_cmps(ints)
    g.fam_unary_pow(ints)
    g.fam_casts(ints)
    g.fam_logic()
    g.fam_control(ints)
    g.fam_locals(ints)
    g.fam_stateful(ints)
    g.fam_loops(["i32", "u8", "i64", "i16"] if tier == "quick" else ints)
    g.fam_calls(["i32", "u8", "i64"] if tier == "quick" else ints)
    g.fam_floats()
    g.fam_literal_typing()
    if tier == "quick":
        g.fam_precedence(["i32", "u8"], ["+", "-", "*", "/", "%"])
        g.fam_precedence(["i8", "u64"], ["+", "-", "*"])
        g.fam_random_expr(1500, 2)
        g.fam_random_expr(1500, 3)
        g.fam_random_stmt(700, 1)
        g.fam_random_stmt(300, 2)
    else:
        g.fam_precedence(["i8", "i16", "i32", "u8", "u16", "u32"], ["+", "-", "*", "/", "%"])
        g.fam_precedence(["i64", "u64"], ["+", "-", "*", "/", "%"])
        g.fam_random_expr(5000, 2)
        g.fam_random_expr(7000, 3)
        g.fam_random_expr(2500, 4)
        g.fam_random_stmt(2500, 1)
        g.fam_random_stmt(2000, 2)
    return g.progs
