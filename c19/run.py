#!/usr/bin/env python3-vt
"""C19: solver-based translation validation of the Arc compiler (arc/go) against
arc/docs/spec.md.

  python3-vt /verif/c19/run.py --tier quick|thorough --out result.json [--seed N]
                               [--repo /repo] [--known known.json] [--jobs 16]
  python3-vt /verif/c19/run.py --replay /verif/out/C19/replay/<file>.json [--repo /repo]

exit 0: no violation, nothing broken.   exit 1: replayed violation(s).
exit 3: the run itself is broken (driver build, bulk analyzer rejects, executor
        unsupported opcode, translator-validation mismatch, encoding mismatch ...).
"""
import argparse
import collections
import concurrent.futures
import hashlib
import json
import multiprocessing
import os
import re
import shutil
import subprocess
import sys
import time

HERE = os.path.dirname(os.path.abspath(__file__))
sys.path.insert(0, HERE)
OUT_ROOT = "/verif/out/C19"
GO_ENV = {"PATH": "/opt/veriftools/go1.26.8/bin:" + os.environ.get("PATH", ""),
          "GOTOOLCHAIN": "local", "GOFLAGS": "-mod=mod", "GOPROXY": "off"}

TIERS = {
    "quick": {"timeout_ms": 10000, "unroll": 6, "nvec": 6, "budget_s": 330},
    "thorough": {"timeout_ms": 30000, "unroll": 8, "nvec": 8, "budget_s": 2100},
}

FUNCTIONS_ENCODED = [
    "arc.CompileText", "text.Parse", "text.Analyze", "compiler.Compile",
    "compiler/expression.Compile", "compileLogicalOrImpl", "compileLogicalAndImpl",
    "normalizeBoolean", "compileBinaryEquality", "compileBinaryRelational",
    "compileBinaryAdditive", "compileBinaryMultiplicative", "compilePower",
    "compileUnary", "compilePostfix", "compileFunctionCallExpr", "compilePrimary",
    "compileTypeCast", "EmitCast", "compileNumericLiteral", "compileIdentifier",
    "compiler/wasm.binaryOpcode", "wasm.Writer.*", "wasm.Module.Generate",
    "compiler/statement.CompileBlock", "compileIfStatement", "compileReturnStatement",
    "compileLocalVariable", "compileStatefulVariable", "compileAssignment",
    "compileCompoundAssignment", "compileForStatement", "compileForRange",
    "compileForCondition", "compileBreakStatement", "compileContinueStatement",
    "resolve.Resolver.EmitMathPow/EmitStateLoad/EmitStateStore/EmitCall",
    "stl/stateful host load_*/store_* (modelled)", "stl/math host pow_* (modelled)",
]

OUTSIDE = [
    "series, strings, channels, multi-output functions, config blocks, units, flow/sequence layer",
    "casts changing signedness AND width on inputs not representable in the target type "
    "(spec rules 'narrowing truncates'/'widening extends' vs 'saturates at bounds' conflict) "
    "- excluded by precondition",
    "float->int cast of NaN (spec silent) - excluded by precondition",
    "chained comparisons (a < b < c), mixed and/or without parentheses, mixed relational/"
    "equality without parentheses (spec gives one precedence level, no associativity)",
    "exponentiation with non-literal, negative or >16 exponent; float ^ and float %",
    "float arithmetic beyond + - neg, *const, /const, comparisons, casts (no f*f, f/f symbolic)",
    "integer literals > i64 max are generated only for u64 boundary probes",
    "runtime ABI of the scheduler node (arc/go/stl/wasm/node.go valueAt zero-extends i8/i16 "
    "inputs): parameters are assumed canonical (sign-extended for signed types)",
    "recursion, series-iteration loops, infinite `for {}` loops",
]

ASSUMPTIONS = [
    "A1 signed integer / truncates toward zero, % takes the sign of the dividend (spec silent)",
    "A2 for-loop semantics taken from arc/go/for_loop_test.go (spec.md says 'No loops')",
    "A3 unary minus on unsigned is 0 - x with wrapping (spec silent)",
    "ABI: narrow integer parameters arrive canonical (sign/zero-extended to 32 bits); only the "
    "low N bits of a narrow integer result are compared (the runtime stores only N bits)",
]


SPEC_REF = {
    "nowrap": "spec.md 'Type Casting/Rules': \"Integer overflow uses two's-complement wrapping\" "
              "(per declared width i8/i16/u8/u16); compiler keeps 32-bit intermediate results",
    "castraw": "spec.md 'Type Casting/Rules': \"Narrowing truncates\", \"Signed <-> Unsigned "
               "saturates at bounds\"; compiler emits no code for casts between <=32-bit types and "
               "plain extend/wrap otherwise",
    "sdivtrap": "spec.md 'Runtime Errors' lists only division/modulo by zero and 'Type Casting' says "
                "integer overflow wraps; MIN / -1 traps (wasm integer overflow)",
    "ftrunctrap": "spec.md 'Type Casting/Rules': \"Float -> Integer truncates toward zero, saturates "
                  "on overflow\"; compiler emits trapping iNN.trunc_fMM and no clamp for 8/16-bit",
    "unarypow": "spec.md 'Operators/Precedence': ^ binds tighter than unary -/not (\"-2 ^ 2 // -4\"); "
                "grammar powerExpression: unaryExpression (CARET powerExpression)? parses (-x)^k",
    "accepted-not-compiled": "C19 clause 1: every program the analyzer accepts must compile",
    "invalid-module": "C19 clause 1: the module must validate and instantiate",
    "unexplained": "result differs from the spec reference and from every modelled deviation",
}


def spec_ref(cls):
    out = []
    for k, v in SPEC_REF.items():
        if k in cls:
            out.append(v)
    return " | ".join(out)


def log(*a):
    print("[c19]", *a, file=sys.stderr, flush=True)


# --------------------------------------------------------------------- driver
def build_driver(repo):
    tag = re.sub(r"[^A-Za-z0-9]+", "_", os.path.abspath(repo)).strip("_") or "root"
    bdir = os.path.join(OUT_ROOT, "build", tag)
    os.makedirs(bdir, exist_ok=True)
    shutil.copy(os.path.join(HERE, "driver", "main.go"), os.path.join(bdir, "main.go"))
    gomod = open(os.path.join(HERE, "driver", "go.mod")).read()
    gomod = gomod.replace("/repo/", os.path.abspath(repo).rstrip("/") + "/")
    with open(os.path.join(bdir, "go.mod"), "w") as f:
        f.write(gomod)
    shutil.copy(os.path.join(repo, "arc", "go", "go.sum"), os.path.join(bdir, "go.sum"))
    env = dict(os.environ)
    env.update(GO_ENV)
    exe = os.path.join(bdir, "driver")
    t = time.time()
    p = subprocess.run(["go", "build", "-o", exe, "."], cwd=bdir, env=env,
                       stdout=subprocess.PIPE, stderr=subprocess.STDOUT, text=True)
    if p.returncode != 0:
        return None, p.stdout[-4000:]
    log("driver built against %s in %.1fs" % (repo, time.time() - t))
    return exe, ""


def run_driver(exe, mode, items, jobs, workdir, tagname):
    """Run driver over items split into chunks, in parallel. Returns dict id -> out."""
    if not items:
        return {}
    n = max(1, min(jobs, len(items)))
    chunks = [items[i::n] for i in range(n)]

    def one(ix):
        inp = os.path.join(workdir, "%s_%s_%d.in.json" % (tagname, mode, ix))
        outp = os.path.join(workdir, "%s_%s_%d.out.json" % (tagname, mode, ix))
        with open(inp, "w") as f:
            json.dump(chunks[ix], f)
        p = subprocess.run([exe, mode, inp, outp], stdout=subprocess.PIPE,
                           stderr=subprocess.STDOUT, text=True)
        if p.returncode != 0:
            raise RuntimeError("driver %s failed: %s" % (mode, p.stdout[-2000:]))
        with open(outp) as f:
            return json.load(f)

    res = {}
    with concurrent.futures.ThreadPoolExecutor(n) as tp:
        for outs in tp.map(one, range(n)):
            for o in outs:
                res[o["id"]] = o
    return res


def norm_err(msg):
    m = msg.strip().split("\n")[0]
    m = re.sub(r"^(failed to compile [^:]*: )+", "", m)
    mm = re.search(r"for ('if'|[\w.]+): type mismatch", m)
    if mm:
        return "operand type mismatch at " + re.sub(r"\d+", "N", mm.group(1))
    m = re.sub(r"\d+", "N", m)
    m = re.sub(r"invalid function\[N\] export\[\"\w+\"\]: ", "", m)
    return m[:120]


# --------------------------------------------------------------------- replay
def do_replay(path, repo):
    rec = json.load(open(path))
    exe, err = build_driver(repo)
    if exe is None:
        print("driver build failed:\n" + err)
        return 3
    os.makedirs(os.path.join(OUT_ROOT, "work"), exist_ok=True)
    wd = os.path.join(OUT_ROOT, "work")
    if rec["kind"] in ("accepted-not-compiled", "invalid-module"):
        out = run_driver(exe, "compile", [{"id": "r", "source": rec["program"]}], 1, wd, "replay")["r"]
        got = "%s: %s" % (out.get("stage"), norm_err(out["error"])) if out.get("error") else "ok"
        print("expected: analyzer-accepted program compiles, validates, instantiates")
        print("got     : %s" % got)
        repro = bool(out.get("error")) and out.get("stage") in ("compile", "validate", "instantiate")
    else:
        import check
        out = run_driver(exe, "run", [{"id": "r", "source": rec["program"], "calls": rec["calls"]}],
                         1, wd, "replay")["r"]
        if out.get("error"):
            print("could not run: " + out["error"])
            return 3
        got = [check.real_outcome_str(rec["ret_type"], c) for c in out["calls"]]
        print("program:\n" + rec["program"])
        print("args    : %s" % rec.get("args"))
        print("expected: %s   (spec: %s)" % (rec["reference_result"], rec.get("spec", "")))
        print("got     : %s" % got)
        repro = got != rec["reference_result"]
    print("REPRODUCED" if repro else "NOT-REPRODUCED")
    return 1 if repro else 0


# --------------------------------------------------------------------- main
def main():
    ap = argparse.ArgumentParser()
    ap.add_argument("--tier", choices=["quick", "thorough"], default="quick")
    ap.add_argument("--out")
    ap.add_argument("--seed", type=int, default=1)
    ap.add_argument("--repo", default="/repo")
    ap.add_argument("--known", help="JSON list of violation classes accepted as known findings")
    ap.add_argument("--jobs", type=int, default=16)
    ap.add_argument("--replay")
    ap.add_argument("--limit", type=int, default=0, help="debug: only first N programs")
    ap.add_argument("--family", default="", help="debug: regex filter on program family")
    args = ap.parse_args()
    os.makedirs(OUT_ROOT, exist_ok=True)
    if args.replay:
        sys.exit(do_replay(args.replay, args.repo))
    if not args.out:
        ap.error("--out required")

    t_start = time.time()
    cfg = TIERS[args.tier]
    broken = []
    result = {"programs": 0, "equivalent": 0, "violations": [], "known_violations": [],
              "inconclusive": [], "broken": broken, "disagreements_checked": 0,
              "traces_validated": 0, "samples": [], "solver_s": 0.0, "wall_s": 0.0,
              "functions_encoded": FUNCTIONS_ENCODED, "outside": OUTSIDE}

    def finish(code):
        result["wall_s"] = round(time.time() - t_start, 1)
        with open(args.out, "w") as f:
            json.dump(result, f, indent=1)
        log("programs=%d equivalent=%d violations=%d known=%d inconclusive=%d broken=%d "
            "traces=%d wall=%.0fs -> exit %d" % (
                result["programs"], result["equivalent"], len(result["violations"]),
                len(result["known_violations"]), len(result["inconclusive"]), len(broken),
                result["traces_validated"], result["wall_s"], code))
        sys.exit(code)

    exe, err = build_driver(args.repo)
    if exe is None:
        broken.append("driver build failed: " + err)
        finish(3)

    import gen
    import check
    progs = gen.generate(args.tier, args.seed)
    if args.family:
        progs = [p for p in progs if re.search(args.family, p["family"])]
    if args.limit:
        progs = progs[:args.limit]
    byid = {p["id"]: p for p in progs}
    log("generated %d programs (tier %s seed %d)" % (len(progs), args.tier, args.seed))
    workdir = os.path.join(OUT_ROOT, "work", "%s_%d" % (args.tier, os.getpid()))
    os.makedirs(workdir, exist_ok=True)
    replay_dir = os.path.join(OUT_ROOT, "replay")
    os.makedirs(replay_dir, exist_ok=True)

    # ---- compile with the real compiler
    t = time.time()
    try:
        comp = run_driver(exe, "compile", [{"id": p["id"], "source": p["source"]} for p in progs],
                          args.jobs, workdir, "c")
    except Exception as e:  # noqa
        broken.append("driver compile run failed: %s" % e)
        finish(3)
    log("compiled in %.1fs" % (time.time() - t))
    rejected = [p for p in progs if comp[p["id"]].get("stage") in ("parse", "analyze")]
    raw_viol = []  # dicts: id, kind, class, ...
    for p in progs:
        o = comp[p["id"]]
        if o.get("stage") == "compile":
            raw_viol.append({"id": p["id"], "kind": "accepted-not-compiled",
                             "class": "accepted-not-compiled: " + norm_err(o["error"]),
                             "got": o["error"].strip()[:400]})
        elif o.get("stage") in ("validate", "instantiate", "hostbind"):
            raw_viol.append({"id": p["id"], "kind": "invalid-module",
                             "class": "invalid-module: " + norm_err(o["error"]),
                             "got": o["error"].strip()[:400]})
    result["programs"] += len(raw_viol)  # decided at compile/validate time
    if len(rejected) > max(5, 0.05 * len(progs)):
        ex = rejected[0]
        broken.append("generator: %d/%d programs rejected by the analyzer, e.g. %s: %s\n%s" % (
            len(rejected), len(progs), ex["id"], comp[ex["id"]]["error"][:200], ex["source"]))
    result["rejected_by_analyzer"] = len(rejected)

    # ---- symbolic check
    jobs = []
    for p in progs:
        o = comp[p["id"]]
        if o.get("error"):
            continue
        jobs.append({"prog": p, "wasm_b64": o["wasm"], "unroll": cfg["unroll"],
                     "timeout_ms": cfg["timeout_ms"], "nvec": cfg["nvec"], "seed": args.seed})
    checked = {}
    deadline = t_start + cfg["budget_s"]
    pool = multiprocessing.Pool(args.jobs, maxtasksperchild=40)
    try:
        it = pool.imap_unordered(check.check_program, jobs, chunksize=1)
        done = 0
        while done < len(jobs):
            remaining = deadline - time.time()
            try:
                r = it.next(timeout=max(1.0, remaining))
            except multiprocessing.TimeoutError:
                log("wall budget reached with %d/%d programs checked" % (done, len(jobs)))
                break
            except StopIteration:
                break
            checked[r["id"]] = r
            done += 1
            if done % 200 == 0:
                log("checked %d/%d (%.0fs)" % (done, len(jobs), time.time() - t_start))
    finally:
        pool.terminate()
    for j in jobs:
        pid = j["prog"]["id"]
        if pid not in checked:
            checked[pid] = {"id": pid, "verdict": "inconclusive", "reason": "wall budget exhausted",
                            "solver_s": 0.0, "vectors": [], "cex": None, "class": None,
                            "opcodes": [], "host_calls": []}

    # ---- real executions: translator-validation vectors + counterexample replays
    run_items = []
    seq_index = {}  # (pid, "v<i>"|"cex") -> index into seqs
    nseq = 0
    for pid, r in checked.items():
        seqs = []
        for vi, v in enumerate(r.get("vectors", [])):
            if v.get("skip"):
                continue  # executor says the loop bound is exceeded: may not terminate
            seq_index[(pid, "v%d" % vi)] = len(seqs)
            seqs.append(v["calls"])
        if r.get("cex"):
            seq_index[(pid, "cex")] = len(seqs)
            seqs.append(r["cex"]["calls"])
        if seqs:
            run_items.append({"id": pid, "wasm": comp[pid]["wasm"], "seqs": seqs})
            nseq += len(seqs)
    t = time.time()
    try:
        runs_raw = run_driver(exe, "run", run_items, args.jobs, workdir, "r")
    except Exception as e:  # noqa
        broken.append("driver run failed: %s" % e)
        finish(3)
    log("%d real call sequences (%d modules) in %.1fs" % (nseq, len(run_items), time.time() - t))

    class _Runs:
        def get(self, key):
            pid, what = key.split("/")
            ro = runs_raw.get(pid)
            if ro is None:
                return None
            if ro.get("error"):
                return {"error": ro["error"]}
            ix = seq_index.get((pid, what))
            if ix is None:
                return None
            return {"calls": ro["seqs"][ix]}
    runs = _Runs()

    opcodes = set()
    host_calls = set()
    unsupported = collections.Counter()
    for pid, r in sorted(checked.items()):
        p = byid[pid]
        rt = [f for f in p["funcs"] if f["name"] == p["main"]][0]["ret"]
        opcodes.update(r.get("opcodes", []))
        host_calls.update(r.get("host_calls", []))
        result["solver_s"] += r.get("solver_s", 0.0)
        for vi, v in enumerate(r.get("vectors", [])):
            if v.get("skip"):
                continue
            ro = runs.get("%s/v%d" % (pid, vi))
            if ro is None or ro.get("error"):
                broken.append("real run failed for %s vector %d: %s" % (pid, vi, ro and ro.get("error")))
                continue
            got = [check.real_outcome_str(rt, c) for c in ro["calls"]]
            if "exceeded" in v["pred"]:
                continue
            if got != v["pred"]:
                broken.append("translator-validation mismatch %s args=%s executor=%s real=%s\n%s" % (
                    pid, [c["args"] for c in v["calls"]], v["pred"], got, p["source"]))
            else:
                result["traces_validated"] += 1
        if r["verdict"] == "broken":
            broken.append("%s: %s\n%s" % (pid, r["reason"], p["source"]))
            continue
        if r.get("unsupported"):
            unsupported[r["unsupported"]] += 1
        if r["verdict"] == "inconclusive":
            result["inconclusive"].append({"id": pid, "family": p["family"], "program": p["source"],
                                           "reason": r["reason"]})
            continue
        result["programs"] += 1
        if r["verdict"] == "equivalent":
            result["equivalent"] += 1
            continue
        # sat: replay
        cex = r["cex"]
        result["disagreements_checked"] += 1
        ro = runs.get("%s/cex" % pid)
        if ro is None or ro.get("error"):
            broken.append("cex replay failed for %s: %s" % (pid, ro and ro.get("error")))
            continue
        got = [check.real_outcome_str(rt, c) for c in ro["calls"]]
        if got != cex["predicted"]:
            broken.append("encoding-mismatch (executor vs real) %s args=%s executor=%s real=%s\n%s" % (
                pid, cex["args_shown"], cex["predicted"], got, p["source"]))
            continue
        if got == cex["expected"]:
            broken.append("encoding-mismatch (cex does not reproduce) %s args=%s expected=%s real=%s\n%s"
                          % (pid, cex["args_shown"], cex["expected"], got, p["source"]))
            continue
        raw_viol.append({"id": pid, "kind": "wrong-result", "class": "semantics: " + (r["class"] or "?"),
                         "calls": cex["calls"], "args": cex["args_shown"],
                         "compiled_result": got, "reference_result": cex["expected"],
                         "ret_type": rt})
    for msg, n in unsupported.items():
        if msg.startswith("opcode") or "memory" in msg:
            broken.append("executor unsupported: %s (%d programs)" % (msg, n))

    # ---- group violations by class, write replay files
    known, known_flags = set(), set()
    if args.known:
        kj = json.load(open(args.known))
        known = set(kj.get("classes", []))
        known_flags = set(kj.get("semantic_deviation_flags", []))

    def is_known(cls):
        if cls in known or any(k.endswith("*") and cls.startswith(k[:-1]) for k in known):
            return True
        if cls.startswith("semantics: ") and known_flags:
            body = cls[len("semantics: "):]
            pfx = "unclassified(timeout; consistent-with:"
            if body.startswith(pfx):
                body = body[len(pfx):].rstrip(")")
            return all(f in known_flags for f in body.split("+"))
        return False
    by_class = collections.OrderedDict()
    for v in raw_viol:
        by_class.setdefault(v["class"], []).append(v)
    for cls, vs in by_class.items():
        reps = []
        for v in vs[:3]:
            p = byid[v["id"]]
            rec = {"class": cls, "kind": v["kind"], "program": p["source"], "function": p["main"],
                   "family": p["family"], "spec": spec_ref(cls)}
            if v["kind"] == "wrong-result":
                rec.update({"calls": v["calls"], "args": v["args"], "ret_type": v["ret_type"],
                            "compiled_result": v["compiled_result"],
                            "reference_result": v["reference_result"]})
            else:
                rec.update({"args": None, "compiled_result": v["got"],
                            "reference_result": "module compiles, validates and instantiates"})
            h = hashlib.sha1((cls + p["source"]).encode()).hexdigest()[:10]
            path = os.path.join(replay_dir, "C19_%s.json" % h)
            with open(path, "w") as f:
                json.dump(rec, f, indent=1)
            rec["replay_cmd"] = "python3-vt /verif/c19/run.py --replay %s --repo %s" % (path, args.repo)
            rec["replay_file"] = path
            reps.append(rec)
        entry = {"class": cls, "count": len(vs), "program_ids": [v["id"] for v in vs][:50],
                 "families": sorted(set(byid[v["id"]]["family"] for v in vs)),
                 "examples": reps, "spec": spec_ref(cls),
                 # flat fields of the first example, as required by the interface
                 "program": reps[0]["program"], "function": reps[0]["function"],
                 "args": reps[0]["args"], "compiled_result": reps[0]["compiled_result"],
                 "reference_result": reps[0]["reference_result"],
                 "replay_cmd": reps[0]["replay_cmd"]}
        if is_known(cls):
            result["known_violations"].append(entry)
        else:
            result["violations"].append(entry)
            print("C19-VIOLATION %s (%d programs) e.g. args=%s expected=%s got=%s replay=%s" % (
                cls, len(vs), reps[0]["args"], reps[0]["reference_result"],
                str(reps[0]["compiled_result"])[:120], reps[0]["replay_file"]), flush=True)

    # ---- samples, bounds
    fam_seen = set()
    for pid, r in sorted(checked.items()):
        p = byid[pid]
        if p["family"] in fam_seen or len(result["samples"]) >= 12:
            continue
        fam_seen.add(p["family"])
        result["samples"].append({"id": pid, "family": p["family"], "program": p["source"],
                                  "verdict": r["verdict"], "class": r.get("class")})
    fams = collections.Counter(p["family"] for p in progs)
    verdict_by_family = collections.defaultdict(collections.Counter)
    for pid, r in checked.items():
        verdict_by_family[byid[pid]["family"]][r["verdict"]] += 1
    result["bounds"] = {
        "tier": args.tier, "seed": args.seed, "generated": len(progs),
        "families": dict(fams),
        "verdicts_by_family": {k: dict(v) for k, v in verdict_by_family.items()},
        "types": "i8 i16 i32 i64 u8 u16 u32 u64 (all families); f32 f64 (float-* families only)",
        "ops": "+ - * / % ^(literal exponent 0..3) unary- not and or == != < > <= >= casts "
               "if/else-if/else early return, locals, compound assignment, $= stateful (2-3 "
               "invocations), for-range / while / break / continue, calls to user functions",
        "expr_depth": {"systematic": 2, "random": "2-3" if args.tier == "quick" else "2-4"},
        "loop_unroll": cfg["unroll"], "solver_timeout_ms": cfg["timeout_ms"],
        "vectors_per_program": cfg["nvec"], "assumptions": ASSUMPTIONS,
        "wasm_opcodes_seen": ["0x%x" % o for o in sorted(opcodes)],
        "host_imports_seen": sorted(host_calls),
        "repo": args.repo,
    }
    result["solver_s"] = round(result["solver_s"], 1)
    if broken:
        finish(3)
    finish(1 if result["violations"] else 0)


if __name__ == "__main__":
    main()
