"""Arc AST, source printer and REFERENCE SEMANTICS (z3 terms) for C19.

The reference is written from /repo/arc/docs/spec.md only:
  * "Type System / Boolean Semantics": u8 is boolean; and/or/not normalise to 0/1,
    short-circuit evaluation.
  * "Type Casting / Rules": widening extends, narrowing truncates, signed<->unsigned
    saturates at bounds, float->int truncates toward zero and saturates,
    "Integer overflow uses two's-complement wrapping".
  * "Operators / Precedence": ^ (right assoc) > unary -,not > * / % > + - > comparisons
    > and, or.
  * "Error Handling / Runtime Errors": division / modulo by zero is a runtime error
    (reference: trap). No other arithmetic runtime error is listed.
  * "Variables": locals reset per invocation, `$=` stateful variables persist,
    compound assignment `x op= e` is `x = x op e`.
  * "Control Flow": if / else if / else, return.

Documented ASSUMPTIONS where spec.md is silent (reported in the output "bounds"):
  A1 signed integer / truncates toward zero and % takes the sign of the dividend
     (the behaviour of both Arc host languages Go and C++).
  A2 for-loops: spec.md says "No loops"; the implementation has them. Reference uses
     the semantics documented in arc/go/for_loop_test.go: `for i := range(a, b)` iterates
     i = a, a+1, ... while i < b (half open, bounds evaluated once, i has the type of
     the bounds), `for cond {}` is a while loop, break/continue as usual.
  A3 unary minus on an unsigned operand is 0 - x with wrapping.
Shapes where the spec is ambiguous are EXCLUDED via the precondition `pre`:
  casts that change signedness AND width for inputs not representable in the target
  (rule "narrowing truncates" / "widening extends" conflicts with "saturates at bounds").

Values: an Arc integer of type T (N bits) is carried in a "container" bit-vector of
32 bits (N<=32) or 64 bits, canonical = sign-/zero-extended per T. This matches the
spec's "Type mapping" section and lets one evaluator also express DEVIATION modes used
only to *classify* confirmed violations:
  nowrap    8/16-bit arithmetic results are not wrapped to N bits
  castraw   integer casts behave like wasm reinterpret/extend/wrap only
  sdivtrap  signed MIN / -1 traps
  ftrunctrap float->int of NaN/out-of-range traps instead of saturating
  unarypow  unary minus binds tighter than ^
"""
import z3

INT_T = {"i8": (8, True), "i16": (16, True), "i32": (32, True), "i64": (64, True),
         "u8": (8, False), "u16": (16, False), "u32": (32, False), "u64": (64, False)}
FLOAT_T = {"f32": z3.Float32(), "f64": z3.Float64()}
ALL_INT = ["i8", "i16", "i32", "i64", "u8", "u16", "u32", "u64"]
RNE = z3.RNE()
RTZ = z3.RTZ()


def is_int(t):
    return t in INT_T


def is_float(t):
    return t in FLOAT_T


def bits(t):
    return INT_T[t][0] if t in INT_T else (32 if t == "f32" else 64)


def signed(t):
    return INT_T[t][1]


def cw(t):
    return 32 if bits(t) <= 32 else 64


def tmax(t):
    n, s = INT_T[t]
    return (1 << (n - 1)) - 1 if s else (1 << n) - 1


def tmin(t):
    n, s = INT_T[t]
    return -(1 << (n - 1)) if s else 0


# ---------------------------------------------------------------------------
# AST helpers. Expressions are tuples; e[-1] is NOT the type, use typeof().
#   ("v", name, T) ("lit", int|float, T) ("bin", op, a, b) ("pow", a, k) ("neg", a)
#   ("cmp", op, a, b) ("and", a, b) ("or", a, b) ("not", a) ("cast", T, a)
#   ("call", fname, [args], T)
# ---------------------------------------------------------------------------
def typeof(e):
    k = e[0]
    if k in ("v", "lit"):
        return e[2]
    if k == "bin":
        return typeof(e[2])
    if k in ("pow", "neg"):
        return typeof(e[1])
    if k in ("cmp", "and", "or", "not"):
        return "u8"
    if k == "cast":
        return e[1]
    if k == "call":
        return e[3]
    raise ValueError(e)


PREC = {"or": 1, "and": 1, "cmp": 2, "+": 3, "-": 3, "*": 4, "/": 4, "%": 4, "neg": 5,
        "not": 5, "pow": 6}


def prec(e):
    k = e[0]
    if k == "bin":
        return PREC[e[1]]
    if k in PREC:
        return PREC[k]
    return 7


def fmt_lit(v, t):
    if is_float(t):
        s = repr(float(v))
        if "e" in s or "inf" in s or "nan" in s:
            raise ValueError("unsupported float literal %r" % v)
        return s
    return str(v)


def show(e):
    """Minimal-parenthesis printer following the precedence table of spec.md. Nested
    comparisons and mixed and/or are always parenthesised (spec gives them one level
    with no associativity)."""
    k = e[0]

    def sub(c, minp):
        s = show(c)
        return "(" + s + ")" if prec(c) < minp else s

    if k == "v":
        return e[1]
    if k == "lit":
        return fmt_lit(e[1], e[2])
    if k == "bin":
        p = PREC[e[1]]
        return "%s %s %s" % (sub(e[2], p), e[1], sub(e[3], p + 1))
    if k == "pow":
        # base must bind tighter than ^ ; exponent is a literal
        return "%s ^ %s" % (sub(e[1], 7), e[2])
    if k == "neg":
        c = e[1]
        s = show(c)
        if prec(c) < 5 or c[0] in ("neg", "lit"):
            s = "(" + s + ")"
        return "-" + s
    if k == "not":
        c = e[1]
        s = show(c)
        if prec(c) < 5:
            s = "(" + s + ")"
        return "not " + s
    if k == "cmp":
        return "%s %s %s" % (sub(e[2], 3), e[1], sub(e[3], 3))
    if k in ("and", "or"):
        def lsub(c):
            s = show(c)
            if prec(c) < 2 and c[0] != k:
                return "(" + s + ")"
            return s

        def rsub(c):
            s = show(c)
            return "(" + s + ")" if prec(c) < 2 else s
        return "%s %s %s" % (lsub(e[1]), k, rsub(e[2]))
    if k == "cast":
        return "%s(%s)" % (e[1], show(e[2]))
    if k == "call":
        return "%s(%s)" % (e[1], ", ".join(show(a) for a in e[2]))
    raise ValueError(e)


def show_block(stmts, ind):
    pad = "    " * ind
    out = []
    for s in stmts:
        k = s[0]
        if k == "decl":
            _, name, t, ex, explicit = s
            out.append("%s%s%s := %s" % (pad, name, " " + t if explicit else "", show(ex)))
        elif k == "sdecl":
            _, name, t, ex = s
            out.append("%s%s %s $= %s" % (pad, name, t, show(ex)))
        elif k == "assign":
            out.append("%s%s = %s" % (pad, s[1], show(s[2])))
        elif k == "cassign":
            out.append("%s%s %s= %s" % (pad, s[1], s[2], show(s[3])))
        elif k == "if":
            _, c, th, elifs, el = s
            out.append("%sif %s {" % (pad, show(c)))
            out.extend(show_block(th, ind + 1))
            for (ec, eb) in elifs:
                out.append("%s} else if %s {" % (pad, show(ec)))
                out.extend(show_block(eb, ind + 1))
            if el is not None:
                out.append("%s} else {" % pad)
                out.extend(show_block(el, ind + 1))
            out.append("%s}" % pad)
        elif k == "ret":
            out.append("%sreturn %s" % (pad, show(s[1])))
        elif k == "forrange":
            _, var, t, start, end, body = s
            if start is None:
                out.append("%sfor %s := range(%s) {" % (pad, var, show(end)))
            else:
                out.append("%sfor %s := range(%s, %s) {" % (pad, var, show(start), show(end)))
            out.extend(show_block(body, ind + 1))
            out.append("%s}" % pad)
        elif k == "while":
            out.append("%sfor %s {" % (pad, show(s[1])))
            out.extend(show_block(s[2], ind + 1))
            out.append("%s}" % pad)
        elif k == "break":
            out.append("%sbreak" % pad)
        elif k == "continue":
            out.append("%scontinue" % pad)
        else:
            raise ValueError(s)
    return out


def show_func(f):
    ps = ", ".join("%s %s" % (n, t) for (n, t) in f["params"])
    lines = ["func %s(%s) %s {" % (f["name"], ps, f["ret"])]
    lines.extend(show_block(f["body"], 1))
    lines.append("}")
    return "\n".join(lines)


def show_program(p):
    return "\n\n".join(show_func(f) for f in p["funcs"]) + "\n"


# ---------------------------------------------------------------------------
# Reference semantics
# ---------------------------------------------------------------------------
def bvv(v, w):
    return z3.BitVecVal(v, w)


def ext(v, t, to_w):
    """extend container of canonical type-t value to to_w bits preserving value."""
    w = v.size()
    if to_w == w:
        return v
    if to_w < w:
        return z3.Extract(to_w - 1, 0, v)
    return z3.SignExt(to_w - w, v) if signed(t) else z3.ZeroExt(to_w - w, v)


def canon(t, v):
    """canonical container for type t from the low bits(t) bits of v."""
    n = bits(t)
    w = cw(t)
    lo = z3.Extract(n - 1, 0, v) if v.size() > n else v
    if n == w:
        return lo
    return z3.SignExt(w - n, lo) if signed(t) else z3.ZeroExt(w - n, lo)


class RefUnsupported(Exception):
    pass


class Ref:
    """Symbolic reference interpreter of an Arc function (guarded, merging style)."""

    def __init__(self, program, dev=frozenset(), unroll=8):
        self.prog = {f["name"]: f for f in program["funcs"]}
        self.dev = dev
        self.unroll = unroll
        self.traps = []  # Bool terms
        self.pre = []  # Bool terms (spec-ambiguity exclusions)
        self.exceeded = []  # Bool terms (loop bound)
        self.state = {}  # stateful variables: (func, name) -> container
        self.call_depth = 0

    # -- helpers --
    def norm(self, t, v):
        if is_float(t):
            return v
        if "nowrap" in self.dev or bits(t) >= 32:
            return v
        return canon(t, v)

    @staticmethod
    def truthy(v):
        return v != 0

    @staticmethod
    def b2c(c):
        return z3.If(c, bvv(1, 32), bvv(0, 32))

    # -- expressions --
    def eval(self, e, fr, g):
        k = e[0]
        if k == "v":
            return fr["env"][e[1]]
        if k == "lit":
            t = e[2]
            if is_float(t):
                return z3.FPVal(float(e[1]), FLOAT_T[t])
            return bvv(e[1], cw(t))
        if k == "bin":
            op = e[1]
            t = typeof(e)
            a = self.eval(e[2], fr, g)
            b = self.eval(e[3], fr, g)
            if is_float(t):
                if op == "+":
                    return z3.fpAdd(RNE, a, b)
                if op == "-":
                    return z3.fpSub(RNE, a, b)
                if op == "*":
                    return z3.fpMul(RNE, a, b)
                if op == "/":
                    return z3.fpDiv(RNE, a, b)
                raise RefUnsupported("float %")
            w = cw(t)
            if op == "+":
                return self.norm(t, a + b)
            if op == "-":
                return self.norm(t, a - b)
            if op == "*":
                return self.norm(t, a * b)
            # division / modulo: spec "Runtime Errors: Division/modulo by zero"
            self.traps.append(z3.And(g, b == 0))
            if op == "/":
                if signed(t):
                    if "sdivtrap" in self.dev:
                        self.traps.append(z3.And(g, a == bvv(1 << (w - 1), w), b == bvv(-1, w)))
                    return self.norm(t, a / b)  # bvsdiv (A1)
                return self.norm(t, z3.UDiv(a, b))
            if op == "%":
                if signed(t):
                    return self.norm(t, z3.SRem(a, b))  # (A1)
                return self.norm(t, z3.URem(a, b))
            raise ValueError(op)
        if k == "pow":
            t = typeof(e)
            if is_float(t):
                raise RefUnsupported("float ^")
            a = self.eval(e[1], fr, g)
            n = bits(t)
            base = z3.Extract(n - 1, 0, a) if a.size() > n else a
            r = bvv(1, n)
            for _ in range(e[2]):
                r = r * base
            return canon(t, r)
        if k in ("neg", "not") and "unarypow" in self.dev:
            # deviation: unary operators bind tighter than ^, i.e. `-x ^ k` is parsed as
            # `(-x) ^ k` and `not -x ^ k` as `(not -x) ^ k`
            chain = []
            cur = e
            while cur[0] in ("neg", "not"):
                chain.append(cur[0])
                if cur[0] == "neg" and cur[1][0] in ("neg", "lit"):
                    # show() parenthesises this operand: `-(-x ^ k)`; the chain of
                    # unary operators applied directly to the pow base ends here
                    cur = ("paren",)
                    break
                cur = cur[1]
            if cur[0] == "pow":
                base = cur[1]
                for u in reversed(chain):
                    base = (u, base)
                # the rebuilt tree has no unary-over-pow at this node any more, but
                # nested ones inside `base` must still be rewritten: keep the flag
                return self._eval_pow_rewritten(("pow", base, cur[2]), fr, g)
        if k == "neg":
            t = typeof(e)
            inner = e[1]
            a = self.eval(inner, fr, g)
            if is_float(t):
                return z3.fpNeg(a)
            return self.norm(t, bvv(0, cw(t)) - a)
        if k == "cmp":
            op = e[1]
            t = typeof(e[2])
            a = self.eval(e[2], fr, g)
            b = self.eval(e[3], fr, g)
            if is_float(t):
                c = {"==": z3.fpEQ(a, b), "!=": z3.Not(z3.fpEQ(a, b)), "<": z3.fpLT(a, b),
                     ">": z3.fpGT(a, b), "<=": z3.fpLEQ(a, b), ">=": z3.fpGEQ(a, b)}[op]
            elif signed(t):
                c = {"==": a == b, "!=": a != b, "<": a < b, ">": a > b, "<=": a <= b,
                     ">=": a >= b}[op]
            else:
                c = {"==": a == b, "!=": a != b, "<": z3.ULT(a, b), ">": z3.UGT(a, b),
                     "<=": z3.ULE(a, b), ">=": z3.UGE(a, b)}[op]
            return self.b2c(c)
        if k == "not":
            a = self.eval(e[1], fr, g)
            return self.b2c(a == 0)
        if k == "and":
            a = self.eval(e[1], fr, g)
            ta = self.truthy(a)
            b = self.eval(e[2], fr, z3.And(g, ta))
            return z3.If(ta, self.b2c(self.truthy(b)), bvv(0, 32))
        if k == "or":
            a = self.eval(e[1], fr, g)
            ta = self.truthy(a)
            b = self.eval(e[2], fr, z3.And(g, z3.Not(ta)))
            return z3.If(ta, bvv(1, 32), self.b2c(self.truthy(b)))
        if k == "cast":
            v = self.eval(e[2], fr, g)
            return self.cast(typeof(e[2]), e[1], v, g)
        if k == "call":
            args = [self.eval(a, fr, g) for a in e[2]]
            return self.call(e[1], args, g)
        raise ValueError(e)

    def _eval_pow_rewritten(self, e, fr, g):
        """evaluate ("pow", base, k) where base is a unary chain that must NOT be
        rewritten again at its top (it no longer sits above a pow)."""
        t = typeof(e)
        base = e[1]
        # evaluate the unary chain manually, innermost operand with the normal evaluator
        ops = []
        cur = base
        while cur[0] in ("neg", "not"):
            ops.append(cur[0])
            cur = cur[1]
        v = self.eval(cur, fr, g)
        ct = typeof(cur)
        for u in reversed(ops):
            if u == "neg":
                v = self.norm(ct, bvv(0, cw(ct)) - v)
            else:
                v = self.b2c(v == 0)
                ct = "u8"
        n = bits(t)
        lo = z3.Extract(n - 1, 0, v) if v.size() > n else v
        r = bvv(1, n)
        for _ in range(e[2]):
            r = r * lo
        return canon(t, r)

    def cast(self, s, t, v, g):
        if s == t:
            return v
        if is_float(s) and is_float(t):
            return z3.fpFPToFP(RNE, v, FLOAT_T[t])
        if is_int(s) and is_float(t):
            # int -> float: value conversion (round to nearest even); only the low
            # bits(s) canonical value is meaningful.
            vv = v if ("nowrap" in self.dev or "castraw" in self.dev) else canon(s, v)
            if signed(s):
                return z3.fpSignedToFP(RNE, vv, FLOAT_T[t])
            return z3.fpUnsignedToFP(RNE, vv, FLOAT_T[t])
        if is_float(s) and is_int(t):
            return self.cast_f2i(s, t, v, g)
        sn, tn = bits(s), bits(t)
        ss, ts = signed(s), signed(t)
        if "castraw" in self.dev:
            if cw(s) == cw(t):
                return v
            if cw(s) == 32:
                return z3.SignExt(32, v) if ss else z3.ZeroExt(32, v)
            return z3.Extract(31, 0, v)
        if "nowrap" in self.dev:
            v = canon(s, v)
        if ss == ts:
            if tn >= sn:
                return ext(v, s, cw(t))  # widening: value preserved
            return canon(t, v)  # narrowing truncates
        if sn == tn:  # signed <-> unsigned saturates at bounds
            w = cw(s)
            if ss:
                return z3.If(v < 0, bvv(0, w), v)
            mx = bvv(tmax(t), w)
            return z3.If(z3.UGT(v, mx), mx, v)
        if tn > sn:
            if not ss:  # unsigned -> wider signed: always representable
                return ext(v, s, cw(t))
            # signed -> wider unsigned: negative inputs are spec-ambiguous
            self.pre.append(z3.Implies(g, v >= 0))
            return ext(v, s, cw(t))
        # narrowing with sign change: only representable inputs are unambiguous
        w = cw(s)
        if ss:
            ok = z3.And(v >= 0, v <= bvv(tmax(t), w))
        else:
            ok = z3.ULE(v, bvv(tmax(t), w))
        self.pre.append(z3.Implies(g, ok))
        return canon(t, v)

    def cast_f2i(self, s, t, v, g):
        n = bits(t)
        w = cw(t)
        srt = FLOAT_T[s]
        tr = z3.fpRoundToIntegral(RTZ, v)
        if signed(t):
            lo = z3.FPVal(-(2.0 ** (n - 1)), srt)
            hi = z3.FPVal(2.0 ** (n - 1), srt)
            under = z3.fpLT(tr, lo)
            over = z3.fpGEQ(tr, hi)
            conv = z3.fpToSBV(RTZ, v, z3.BitVecSort(w))
            vmin, vmax = bvv(tmin(t), w), bvv(tmax(t), w)
        else:
            hi = z3.FPVal(2.0 ** n, srt)
            under = z3.fpLT(tr, z3.FPVal(0.0, srt))
            over = z3.fpGEQ(tr, hi)
            conv = z3.fpToUBV(RTZ, v, z3.BitVecSort(w))
            vmin, vmax = bvv(0, w), bvv(tmax(t), w)
        # spec: "Float -> Integer truncates toward zero, saturates on overflow".
        # NaN is not covered by the spec: excluded.
        self.pre.append(z3.Implies(g, z3.Not(z3.fpIsNaN(v))))
        if "ftrunctrap" in self.dev:
            # compiler emits trapping iNN.trunc_fMM_s/u on the 32/64-bit container
            if signed(t):
                lo_c = z3.FPVal(-(2.0 ** (w - 1)), srt)
                hi_c = z3.FPVal(2.0 ** (w - 1), srt)
                bad = z3.Or(z3.fpIsInf(v), z3.fpLT(tr, lo_c), z3.fpGEQ(tr, hi_c))
            else:
                hi_c = z3.FPVal(2.0 ** w, srt)
                bad = z3.Or(z3.fpIsInf(v), z3.fpLEQ(v, z3.FPVal(-1.0, srt)),
                            z3.fpGEQ(tr, hi_c))
            self.traps.append(z3.And(g, bad))
            return conv
        return z3.If(under, vmin, z3.If(over, vmax, conv))

    def call(self, fname, args, g):
        f = self.prog[fname]
        if self.call_depth > 4:
            raise RefUnsupported("recursion")
        self.call_depth += 1
        fr = self.new_frame(f, args)
        self.exec_block(f["body"], fr, g)
        self.call_depth -= 1
        return fr["retv"]

    def new_frame(self, f, args):
        rt = f["ret"]
        zero = z3.FPVal(0.0, FLOAT_T[rt]) if is_float(rt) else bvv(0, cw(rt))
        return {"f": f, "env": {n: a for (n, _), a in zip(f["params"], args)},
                "returned": z3.BoolVal(False), "retv": zero, "loops": []}

    # -- statements --
    def eff(self, fr, g):
        parts = [g, z3.Not(fr["returned"])]
        if fr["loops"]:
            lp = fr["loops"][-1]
            parts.append(z3.Not(lp["brk"]))
            parts.append(z3.Not(lp["cont"]))
        return z3.simplify(z3.And(*parts))

    def set_var(self, fr, name, g, val):
        env = fr["env"]
        if name in env:
            env[name] = z3.If(g, val, env[name])
        else:
            env[name] = val

    def exec_block(self, stmts, fr, g0):
        for s in stmts:
            g = self.eff(fr, g0)
            if z3.is_false(g):
                return
            k = s[0]
            if k == "decl":
                _, name, t, ex, _ = s
                v = self.eval(ex, fr, g)
                self.set_var(fr, name, g, v)
            elif k == "sdecl":
                _, name, t, ex = s
                key = (fr["f"]["name"], name)
                if key in self.state:
                    fr["env"][name] = self.state[key]
                else:
                    v = self.eval(ex, fr, g)
                    fr["env"][name] = v
                    self.state[key] = canon(t, v)
                fr.setdefault("stateful", {})[name] = t
            elif k in ("assign", "cassign"):
                name = s[1]
                if k == "assign":
                    v = self.eval(s[2], fr, g)
                else:  # ("cassign", name, op, expr, T): x op= e  is  x = x op e
                    v = self.eval(("bin", s[2], ("v", name, s[4]), s[3]), fr, g)
                self.set_var(fr, name, g, v)
                if name in fr.get("stateful", {}):
                    t = fr["stateful"][name]
                    key = (fr["f"]["name"], name)
                    self.state[key] = z3.If(g, canon(t, v), self.state[key])
            elif k == "if":
                _, c, th, elifs, el = s
                rest = g
                branches = [(c, th)] + list(elifs)
                for (bc, bb) in branches:
                    cv = self.truthy(self.eval(bc, fr, rest))
                    self.exec_block(bb, fr, z3.And(rest, cv))
                    rest = z3.And(rest, z3.Not(cv))
                if el is not None:
                    self.exec_block(el, fr, rest)
            elif k == "ret":
                v = self.eval(s[1], fr, g)
                fr["retv"] = z3.If(g, v, fr["retv"])
                fr["returned"] = z3.Or(fr["returned"], g)
            elif k == "forrange":
                _, var, t, start, end, body = s
                i = self.eval(start, fr, g) if start is not None else bvv(0, cw(t))
                limit = self.eval(end, fr, g)
                lp = {"brk": z3.BoolVal(False), "cont": z3.BoolVal(False)}
                fr["loops"].append(lp)
                for it in range(self.unroll + 1):
                    c = (i < limit) if signed(t) else z3.ULT(i, limit)
                    lp["cont"] = z3.BoolVal(False)
                    gi = z3.simplify(z3.And(g, c, z3.Not(lp["brk"]), z3.Not(fr["returned"])))
                    if z3.is_false(gi):
                        break
                    if it == self.unroll:
                        self.exceeded.append(gi)
                        break
                    fr["env"][var] = i
                    self.exec_block(body, fr, gi)
                    i = self.norm(t, i + bvv(1, cw(t)))
                    g = gi
                fr["loops"].pop()
            elif k == "while":
                _, c, body = s
                lp = {"brk": z3.BoolVal(False), "cont": z3.BoolVal(False)}
                fr["loops"].append(lp)
                for it in range(self.unroll + 1):
                    lp["cont"] = z3.BoolVal(False)
                    gpre = z3.simplify(z3.And(g, z3.Not(lp["brk"]), z3.Not(fr["returned"])))
                    if z3.is_false(gpre):
                        break
                    cv = self.truthy(self.eval(c, fr, gpre))
                    gi = z3.simplify(z3.And(gpre, cv))
                    if z3.is_false(gi):
                        break
                    if it == self.unroll:
                        self.exceeded.append(gi)
                        break
                    self.exec_block(body, fr, gi)
                    g = gi
                fr["loops"].pop()
            elif k == "break":
                lp = fr["loops"][-1]
                lp["brk"] = z3.Or(lp["brk"], g)
            elif k == "continue":
                lp = fr["loops"][-1]
                lp["cont"] = z3.Or(lp["cont"], g)
            else:
                raise ValueError(s)

    # -- entry: one invocation of function `name` --
    def invoke(self, name, args):
        """Returns dict(trap=Bool, value=container, pre=Bool, exceeded=Bool). Stateful
        variables persist in self.state across invoke() calls."""
        self.traps, self.pre, self.exceeded = [], [], []
        f = self.prog[name]
        fr = self.new_frame(f, args)
        self.exec_block(f["body"], fr, z3.BoolVal(True))
        return {"trap": z3.simplify(z3.Or(*self.traps)) if self.traps else z3.BoolVal(False),
                "value": fr["retv"],
                "pre": z3.And(*self.pre) if self.pre else z3.BoolVal(True),
                "exceeded": z3.Or(*self.exceeded) if self.exceeded else z3.BoolVal(False)}
