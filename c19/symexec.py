"""Symbolic executor for the WebAssembly subset the Arc compiler emits.

Path-enumerating interpreter over the structured instruction tree produced by
wasmparse. Values are z3 terms: i32/i64 -> BitVec(32/64), f32/f64 -> z3 FP.
Traps are path outcomes. Loops are unrolled up to `unroll` back-edges per loop
entry; a path that would take one more back-edge ends as outcome "exceeded"
(the caller must prove the disjunction of those path conditions unsatisfiable,
otherwise the program is inconclusive).

Host imports:
  stateful.load_<T>/store_<T>   -> symbolic store (model of arc/go/stl/stateful bindScalar*)
  math.pow_<int T>(b, const e)  -> model of arc/go/stl/math bindI{32,64}Pow + x/math.IntPow
  anything else                 -> uninterpreted function of its arguments (pure)
"""
import z3
from wasmparse import I32, I64, F32, F64, Unsupported

RNE = z3.RNE()
RTZ = z3.RTZ()
F32S = z3.Float32()
F64S = z3.Float64()

INT_T = {"i8": (8, True), "i16": (16, True), "i32": (32, True), "i64": (64, True),
         "u8": (8, False), "u16": (16, False), "u32": (32, False), "u64": (64, False)}


def bv(v, w):
    return z3.BitVecVal(v, w)


def zero_of(vt):
    if vt == I32:
        return bv(0, 32)
    if vt == I64:
        return bv(0, 64)
    if vt == F32:
        return z3.FPVal(0.0, F32S)
    if vt == F64:
        return z3.FPVal(0.0, F64S)
    raise Unsupported("value type %r" % vt)


def b2i(c):
    return z3.If(c, bv(1, 32), bv(0, 32))


def simp(e):
    return z3.simplify(e)


class State:
    __slots__ = ("pc", "stack", "locals", "store", "globals")

    def __init__(self, pc, stack, locals_, store, globals_):
        self.pc = pc
        self.stack = stack
        self.locals = locals_
        self.store = store
        self.globals = globals_

    def fork(self):
        return State(list(self.pc), list(self.stack), list(self.locals), dict(self.store),
                     list(self.globals))


class Out:
    __slots__ = ("kind", "state", "n", "why")

    def __init__(self, kind, state, n=0, why=""):
        self.kind = kind  # fall | br | ret | trap | exceeded
        self.state = state
        self.n = n
        self.why = why


class PathLimit(Exception):
    pass


class Executor:
    def __init__(self, module, unroll=8, max_paths=4096, max_call_depth=6):
        self.m = module
        self.unroll = unroll
        self.max_paths = max_paths
        self.max_call_depth = max_call_depth
        self.paths = 0
        self.ufs = {}
        self.opcodes_seen = set()
        self.host_calls = set()

    # ---- helpers -------------------------------------------------------
    def _branch(self, st, cond):
        """Returns (state_if_true|None, state_if_false|None) for a Bool cond."""
        c = simp(cond)
        if z3.is_true(c):
            return st, None
        if z3.is_false(c):
            return None, st
        self.paths += 1
        if self.paths > self.max_paths:
            raise PathLimit("more than %d paths" % self.max_paths)
        t = st.fork()
        t.pc.append(c)
        st.pc.append(simp(z3.Not(c)))
        return t, st

    def _trap_if(self, st, cond, why, outs):
        """Fork a trapping path; returns the continuing state or None."""
        t, f = self._branch(st, cond)
        if t is not None:
            outs.append(Out("trap", t, why=why))
        return f

    # ---- sequence / structured control ----------------------------------
    def exec_seq(self, instrs, st, depth):
        live = [st]
        done = []
        for ins in instrs:
            nxt = []
            for s in live:
                for o in self.step(ins, s, depth):
                    if o.kind == "fall":
                        nxt.append(o.state)
                    else:
                        done.append(o)
            live = nxt
            if not live:
                break
        done.extend(Out("fall", s) for s in live)
        return done

    def _exit_block(self, o, h, arity):
        s = o.state
        if arity:
            vals = s.stack[-arity:]
            s.stack = s.stack[:h] + vals
        else:
            s.stack = s.stack[:h]
        return Out("fall", s)

    def step(self, ins, st, depth):
        op = ins.op
        self.opcodes_seen.add(op)
        stack = st.stack
        # ---- control ----
        if op == 0x00:
            return [Out("trap", st, why="unreachable")]
        if op == 0x01:
            return [Out("fall", st)]
        if op == 0x02:  # block
            h = len(stack)
            ar = len(ins.bt)
            res = []
            for o in self.exec_seq(ins.body, st, depth):
                if o.kind == "fall" or (o.kind == "br" and o.n == 0):
                    res.append(self._exit_block(o, h, ar))
                elif o.kind == "br":
                    res.append(Out("br", o.state, o.n - 1))
                else:
                    res.append(o)
            return res
        if op == 0x03:  # loop
            h = len(stack)
            ar = len(ins.bt)
            res = []
            work = [(st, 0)]
            while work:
                s, it = work.pop()
                for o in self.exec_seq(ins.body, s, depth):
                    if o.kind == "fall":
                        res.append(self._exit_block(o, h, ar))
                    elif o.kind == "br" and o.n == 0:
                        o.state.stack = o.state.stack[:h]
                        if it + 1 > self.unroll:
                            res.append(Out("exceeded", o.state))
                        else:
                            work.append((o.state, it + 1))
                    elif o.kind == "br":
                        res.append(Out("br", o.state, o.n - 1))
                    else:
                        res.append(o)
            return res
        if op == 0x04:  # if
            c = stack.pop()
            h = len(stack)
            ar = len(ins.bt)
            t, f = self._branch(st, c != 0)
            res = []
            for s, body in ((t, ins.body), (f, ins.els)):
                if s is None:
                    continue
                for o in self.exec_seq(body, s, depth):
                    if o.kind == "fall" or (o.kind == "br" and o.n == 0):
                        res.append(self._exit_block(o, h, ar))
                    elif o.kind == "br":
                        res.append(Out("br", o.state, o.n - 1))
                    else:
                        res.append(o)
            return res
        if op == 0x0C:
            return [Out("br", st, ins.imm)]
        if op == 0x0D:
            c = stack.pop()
            t, f = self._branch(st, c != 0)
            res = []
            if t is not None:
                res.append(Out("br", t, ins.imm))
            if f is not None:
                res.append(Out("fall", f))
            return res
        if op == 0x0E:
            raise Unsupported("br_table")
        if op == 0x0F:
            return [Out("ret", st)]
        if op == 0x10:
            return self.call(ins.imm, st, depth)
        # ---- parametric / variable ----
        if op == 0x1A:
            stack.pop()
            return [Out("fall", st)]
        if op == 0x1B:
            c = stack.pop()
            v2 = stack.pop()
            v1 = stack.pop()
            stack.append(z3.If(c != 0, v1, v2))
            return [Out("fall", st)]
        if op == 0x20:
            stack.append(st.locals[ins.imm])
            return [Out("fall", st)]
        if op == 0x21:
            st.locals[ins.imm] = stack.pop()
            return [Out("fall", st)]
        if op == 0x22:
            st.locals[ins.imm] = stack[-1]
            return [Out("fall", st)]
        if op == 0x23:
            stack.append(st.globals[ins.imm])
            return [Out("fall", st)]
        if op == 0x24:
            st.globals[ins.imm] = stack.pop()
            return [Out("fall", st)]
        if 0x28 <= op <= 0x40:
            raise Unsupported("memory instruction 0x%02x" % op)
        # ---- constants ----
        if op == 0x41:
            stack.append(bv(ins.imm & 0xFFFFFFFF, 32))
            return [Out("fall", st)]
        if op == 0x42:
            stack.append(bv(ins.imm & 0xFFFFFFFFFFFFFFFF, 64))
            return [Out("fall", st)]
        if op == 0x43:
            stack.append(z3.fpBVToFP(bv(ins.imm, 32), F32S))
            return [Out("fall", st)]
        if op == 0x44:
            stack.append(z3.fpBVToFP(bv(ins.imm, 64), F64S))
            return [Out("fall", st)]
        return self.numeric(op, st)

    # ---- numeric ---------------------------------------------------------
    def numeric(self, op, st):
        stack = st.stack
        outs = []

        def fall():
            outs.append(Out("fall", st))
            return outs

        # integer tests / comparisons
        if op == 0x45 or op == 0x50:
            a = stack.pop()
            stack.append(b2i(a == 0))
            return fall()
        cmp_tbl = {0: lambda a, b: a == b, 1: lambda a, b: a != b,
                   2: lambda a, b: a < b, 3: z3.ULT, 4: lambda a, b: a > b, 5: z3.UGT,
                   6: lambda a, b: a <= b, 7: z3.ULE, 8: lambda a, b: a >= b, 9: z3.UGE}
        if 0x46 <= op <= 0x4F or 0x51 <= op <= 0x5A:
            k = op - 0x46 if op <= 0x4F else op - 0x51
            b = stack.pop()
            a = stack.pop()
            stack.append(b2i(cmp_tbl[k](a, b)))
            return fall()
        # float comparisons
        if 0x5B <= op <= 0x66:
            k = (op - 0x5B) % 6
            b = stack.pop()
            a = stack.pop()
            f = [z3.fpEQ, lambda x, y: z3.Not(z3.fpEQ(x, y)), z3.fpLT, z3.fpGT, z3.fpLEQ,
                 z3.fpGEQ][k]
            stack.append(b2i(f(a, b)))
            return fall()
        # integer arithmetic
        if 0x67 <= op <= 0x69 or 0x79 <= op <= 0x7B:
            raise Unsupported("clz/ctz/popcnt")
        if 0x6A <= op <= 0x78 or 0x7C <= op <= 0x8A:
            w = 32 if op <= 0x78 else 64
            k = op - 0x6A if w == 32 else op - 0x7C
            b = stack.pop()
            a = stack.pop()
            cur = st
            if k == 0:
                r = a + b
            elif k == 1:
                r = a - b
            elif k == 2:
                r = a * b
            elif k == 3:  # div_s
                cur = self._trap_if(cur, b == 0, "integer divide by zero", outs)
                if cur is not None:
                    cur = self._trap_if(
                        cur, z3.And(a == bv(1 << (w - 1), w), b == bv(-1, w)),
                        "integer overflow", outs)
                r = a / b
            elif k == 4:
                cur = self._trap_if(cur, b == 0, "integer divide by zero", outs)
                r = z3.UDiv(a, b)
            elif k == 5:
                cur = self._trap_if(cur, b == 0, "integer divide by zero", outs)
                r = z3.SRem(a, b)
            elif k == 6:
                cur = self._trap_if(cur, b == 0, "integer divide by zero", outs)
                r = z3.URem(a, b)
            elif k == 7:
                r = a & b
            elif k == 8:
                r = a | b
            elif k == 9:
                r = a ^ b
            elif k == 10:
                r = a << (b & (w - 1))
            elif k == 11:
                r = a >> (b & (w - 1))
            elif k == 12:
                r = z3.LShR(a, b & (w - 1))
            elif k == 13:
                r = z3.RotateLeft(a, b & (w - 1))
            else:
                r = z3.RotateRight(a, b & (w - 1))
            if cur is not None:
                cur.stack.append(r)
                outs.append(Out("fall", cur))
            return outs
        # float unary / binary
        if 0x8B <= op <= 0x98 or 0x99 <= op <= 0xA6:
            k = op - 0x8B if op <= 0x98 else op - 0x99
            if k <= 6:
                a = stack.pop()
                if k == 0:
                    r = z3.fpAbs(a)
                elif k == 1:
                    r = z3.fpNeg(a)
                elif k == 2:
                    r = z3.fpRoundToIntegral(z3.RTP(), a)
                elif k == 3:
                    r = z3.fpRoundToIntegral(z3.RTN(), a)
                elif k == 4:
                    r = z3.fpRoundToIntegral(RTZ, a)
                elif k == 5:
                    r = z3.fpRoundToIntegral(RNE, a)
                else:
                    r = z3.fpSqrt(RNE, a)
                stack.append(r)
                return fall()
            b = stack.pop()
            a = stack.pop()
            if k == 7:
                r = z3.fpAdd(RNE, a, b)
            elif k == 8:
                r = z3.fpSub(RNE, a, b)
            elif k == 9:
                r = z3.fpMul(RNE, a, b)
            elif k == 10:
                r = z3.fpDiv(RNE, a, b)
            else:
                raise Unsupported("float min/max/copysign")
            stack.append(r)
            return fall()
        # conversions
        if op == 0xA7:
            stack.append(z3.Extract(31, 0, stack.pop()))
            return fall()
        if 0xA8 <= op <= 0xAB or 0xAE <= op <= 0xB1:
            w = 32 if op <= 0xAB else 64
            signed = (op % 2 == 0)
            a = stack.pop()
            t = z3.fpRoundToIntegral(RTZ, a)
            srt = a.sort()
            if signed:
                lo = z3.FPVal(-(2.0 ** (w - 1)), srt)
                hi = z3.FPVal(2.0 ** (w - 1), srt)
                bad = z3.Or(z3.fpIsNaN(a), z3.fpIsInf(a), z3.fpLT(t, lo), z3.fpGEQ(t, hi))
                r = z3.fpToSBV(RTZ, a, z3.BitVecSort(w))
            else:
                hi = z3.FPVal(2.0 ** w, srt)
                bad = z3.Or(z3.fpIsNaN(a), z3.fpIsInf(a),
                            z3.fpLEQ(a, z3.FPVal(-1.0, srt)), z3.fpGEQ(t, hi))
                r = z3.fpToUBV(RTZ, a, z3.BitVecSort(w))
            cur = self._trap_if(st, bad, "invalid conversion to integer", outs)
            if cur is not None:
                cur.stack.append(r)
                outs.append(Out("fall", cur))
            return outs
        if op == 0xAC:
            stack.append(z3.SignExt(32, stack.pop()))
            return fall()
        if op == 0xAD:
            stack.append(z3.ZeroExt(32, stack.pop()))
            return fall()
        if 0xB2 <= op <= 0xB5 or 0xB7 <= op <= 0xBA:
            srt = F32S if op <= 0xB5 else F64S
            k = op - 0xB2 if op <= 0xB5 else op - 0xB7
            a = stack.pop()
            if k % 2 == 0:
                stack.append(z3.fpSignedToFP(RNE, a, srt))
            else:
                stack.append(z3.fpUnsignedToFP(RNE, a, srt))
            return fall()
        if op == 0xB6:
            stack.append(z3.fpFPToFP(RNE, stack.pop(), F32S))
            return fall()
        if op == 0xBB:
            stack.append(z3.fpFPToFP(RNE, stack.pop(), F64S))
            return fall()
        if 0xBC <= op <= 0xBF:
            raise Unsupported("reinterpret")
        if 0xC0 <= op <= 0xC4:
            a = stack.pop()
            bits = {0xC0: 8, 0xC1: 16, 0xC2: 8, 0xC3: 16, 0xC4: 32}[op]
            w = a.size()
            stack.append(z3.SignExt(w - bits, z3.Extract(bits - 1, 0, a)))
            return fall()
        if 0xFC00 <= op <= 0xFC07:
            k = op - 0xFC00
            w = 32 if k < 4 else 64
            signed = (k % 2 == 0)
            a = stack.pop()
            srt = a.sort()
            t = z3.fpRoundToIntegral(RTZ, a)
            if signed:
                lo = z3.FPVal(-(2.0 ** (w - 1)), srt)
                hi = z3.FPVal(2.0 ** (w - 1), srt)
                r = z3.If(z3.fpIsNaN(a), bv(0, w),
                          z3.If(z3.fpLT(t, lo), bv(1 << (w - 1), w),
                                z3.If(z3.fpGEQ(t, hi), bv((1 << (w - 1)) - 1, w),
                                      z3.fpToSBV(RTZ, a, z3.BitVecSort(w)))))
            else:
                hi = z3.FPVal(2.0 ** w, srt)
                r = z3.If(z3.Or(z3.fpIsNaN(a), z3.fpLEQ(a, z3.FPVal(-1.0, srt))), bv(0, w),
                          z3.If(z3.fpGEQ(t, hi), bv((1 << w) - 1, w),
                                z3.fpToUBV(RTZ, a, z3.BitVecSort(w))))
            stack.append(r)
            return fall()
        raise Unsupported("opcode 0x%02x" % op)

    # ---- calls -------------------------------------------------------------
    def call(self, fidx, st, depth):
        f = self.m.funcs[fidx]
        np = len(f.type.params)
        args = st.stack[len(st.stack) - np:] if np else []
        if np:
            del st.stack[len(st.stack) - np:]
        if f.imported is not None:
            return self.host_call(f, args, st)
        if depth >= self.max_call_depth:
            raise Unsupported("call depth > %d (recursion?)" % self.max_call_depth)
        saved_stack, saved_locals = st.stack, st.locals
        st.stack = []
        st.locals = list(args) + [zero_of(t) for t in f.locals]
        nres = len(f.type.results)
        res = []
        for o in self.exec_seq(f.body, st, depth + 1):
            if o.kind in ("fall", "ret", "br"):
                s = o.state
                vals = s.stack[-nres:] if nres else []
                s.stack = list(saved_stack) + vals
                s.locals = list(saved_locals)
                res.append(Out("fall", s))
            else:
                res.append(o)
        return res

    def host_call(self, f, args, st):
        mod, name = f.imported
        self.host_calls.add("%s.%s" % (mod, name))
        if mod == "stateful" and (name.startswith("load_") or name.startswith("store_")):
            kind, suffix = name.split("_", 1)
            if suffix in INT_T or suffix in ("f32", "f64"):
                vid = simp(args[0])
                if not z3.is_bv_value(vid):
                    raise Unsupported("stateful id not constant")
                key = (suffix, vid.as_long())
                if kind == "load":
                    if key in st.store:
                        st.stack.append(st.store[key])
                    else:
                        st.store[key] = self._state_norm(suffix, args[1])
                        st.stack.append(args[1])
                else:
                    st.store[key] = self._state_norm(suffix, args[1])
                return [Out("fall", st)]
        if mod == "math" and name.startswith("pow_") and name[4:] in INT_T:
            n, signed = INT_T[name[4:]]
            e = simp(args[1])
            if not z3.is_bv_value(e) or e.as_long() > 16:
                raise Unsupported("math.%s with non-constant or large exponent" % name)
            base = z3.Extract(n - 1, 0, args[0]) if n < args[0].size() else args[0]
            r = bv(1, n)
            for _ in range(e.as_long()):
                r = r * base
            w = args[0].size()
            if n < w:
                r = z3.SignExt(w - n, r) if signed else z3.ZeroExt(w - n, r)
            st.stack.append(r)
            return [Out("fall", st)]
        # generic: pure uninterpreted function
        key = (mod, name)
        if key not in self.ufs:
            sorts = [a.sort() for a in args]
            rs = f.type.results
            if len(rs) > 1:
                raise Unsupported("multi-result host import")
            rsort = {I32: z3.BitVecSort(32), I64: z3.BitVecSort(64), F32: F32S, F64: F64S}[
                rs[0]] if rs else z3.BoolSort()
            self.ufs[key] = z3.Function("host_%s_%s" % (mod, name), *(sorts + [rsort]))
        if f.type.results:
            if not args:
                st.stack.append(z3.Const("host_%s_%s_const" % (mod, name), self.ufs[key].range()))
            else:
                st.stack.append(self.ufs[key](*args))
        return [Out("fall", st)]

    @staticmethod
    def _state_norm(suffix, v):
        """Value the host returns on the next load: uint32(T(value)) (stateful.go)."""
        if suffix in INT_T:
            n, signed = INT_T[suffix]
            w = v.size()
            if n < w:
                lo = z3.Extract(n - 1, 0, v)
                return z3.SignExt(w - n, lo) if signed else z3.ZeroExt(w - n, lo)
        return v

    # ---- entry ---------------------------------------------------------------
    def run_function(self, fidx, args, store=None, pc=None):
        """Symbolically execute function fidx. Returns list of dicts:
        {kind: ret|trap|exceeded, pc: [Bool], values: [...], store: {...}, why}"""
        f = self.m.funcs[fidx]
        if f.imported is not None:
            raise Unsupported("exported function is an import")
        globs = []
        for (vt, _mut, init) in self.m.globals:
            globs.append(zero_of(vt))
        st = State(list(pc or []), [], list(args) + [zero_of(t) for t in f.locals],
                   dict(store or {}), globs)
        nres = len(f.type.results)
        res = []
        for o in self.exec_seq(f.body, st, 0):
            s = o.state
            if o.kind in ("fall", "ret", "br"):
                vals = s.stack[-nres:] if nres else []
                if len(vals) != nres:
                    raise Unsupported("stack underflow at function end")
                res.append({"kind": "ret", "pc": s.pc, "values": vals, "store": s.store})
            elif o.kind == "trap":
                res.append({"kind": "trap", "pc": s.pc, "values": [], "store": s.store,
                            "why": o.why})
            else:
                res.append({"kind": "exceeded", "pc": s.pc, "values": [], "store": s.store})
        return res
