//go:build verif_harness

package cesium

import (
	"context"

	"github.com/synnaxlabs/x/telem"
)

// VerifC15EngineDelete: the engine side of channel deletion. On a DB holding an index channel, a data channel
// indexed by it and a virtual channel, DeleteChannels (batch) or DeleteChannel (single) with any selection:
// every channel named by a successful delete is gone from the engine (cannot be retrieved, a writer cannot be
// opened on it, its directory is gone), channels that were not named are untouched, and an index channel is
// only deleted together with (or after) the channels it indexes.
func VerifC15EngineDelete() {
	ctx := context.Background()
	db, _ := verifStreamDB(ctx)
	const virtKey ChannelKey = 3
	if err := db.CreateChannel(ctx, Channel{Key: virtKey, Name: "virt", DataType: telem.Int64T, Virtual: true}); err != nil {
		panic(err)
	}
	keys := [3]ChannelKey{verifIdxKey, verifDataKey, virtKey}
	var sel [3]bool
	var chs []ChannelKey
	for i, k := range keys {
		if verifBool("selected") {
			sel[i] = true
			chs = append(chs, k)
		}
	}
	// optionally a writer is still open on the virtual channel: deleting it must then be refused, and a refused
	// delete must leave the engine's channel set as it was
	yes, no := true, false
	busy := verifBool("writer-open-on-virtual")
	if busy {
		if _, werr := db.NewStreamWriter(ctx, WriterConfig{Start: 10, Channels: []ChannelKey{virtKey}, Sync: &yes, EnableAutoCommit: &no, ErrOnUnauthorized: &no, AutoIndex: &no}); werr != nil {
			panic(werr)
		}
	}
	batch := verifBool("batch")
	var err error
	if batch {
		err = db.DeleteChannels(chs)
	} else {
		verifAssume(len(chs) == 1)
		err = db.DeleteChannel(chs[0])
	}
	// deleting the index while the data channel stays is the one legitimate refusal
	mustRefuse := (sel[0] && !sel[1]) || (busy && sel[2])
	verifAssert("delete-refused-iff-index-still-indexes-a-kept-channel-or-channel-in-use", (err != nil) == mustRefuse)
	if busy && sel[2] {
		verifAssert("refused-delete-keeps-the-busy-channel", err != nil)
	}
	exists := func(k ChannelKey) bool {
		_, rerr := db.RetrieveChannel(ctx, k)
		return rerr == nil
	}
	dirExists := func(k ChannelKey) bool {
		ok, _ := db.fs.Exists(keyToDirName(k))
		return ok
	}
	for i, k := range keys {
		switch {
		case !sel[i]:
			verifAssert("unnamed-channel-untouched", exists(k) && dirExists(k))
		case busy && k == virtKey:
			verifAssert("busy-virtual-channel-survives-the-refused-delete", exists(k) && dirExists(k))
		case err == nil:
			verifAssert("deleted-channel-not-retrievable", !exists(k))
			verifAssert("deleted-channel-directory-gone", !dirExists(k))
			_, werr := db.NewStreamWriter(ctx, WriterConfig{Start: 10, Channels: []ChannelKey{k}, Sync: &yes, EnableAutoCommit: &no, ErrOnUnauthorized: &no, AutoIndex: &no})
			verifAssert("deleted-channel-not-writable", werr != nil)
		}
	}
	verifReach("end")
}
