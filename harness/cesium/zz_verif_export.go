//go:build verif_harness

package cesium

import (
	"sync/atomic"

	"github.com/synnaxlabs/cesium/internal/unary"
	"github.com/synnaxlabs/cesium/internal/virtual"
	xfs "github.com/synnaxlabs/x/io/fs"
)

// HarnessNewDB assembles an empty engine over fs without Open's relay and GC goroutines and with a stub
// metadata codec (for harnesses of packages that sit on top of the engine).
func HarnessNewDB(fs xfs.FS) *DB {
	db := &DB{options: &options{fs: fs, metaCodec: &verifMetaCodec{}}, closed: &atomic.Bool{}}
	db.mu.dbs.unary = map[ChannelKey]unary.DB{}
	db.mu.dbs.virtual = map[ChannelKey]virtual.DB{}
	return db
}

// HarnessChannels lists the channels the engine currently holds.
func HarnessChannels(db *DB) []Channel {
	var out []Channel
	for _, u := range db.mu.dbs.unary {
		out = append(out, u.Channel())
	}
	for _, v := range db.mu.dbs.virtual {
		out = append(out, v.Channel())
	}
	return out
}
