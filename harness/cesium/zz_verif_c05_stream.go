//go:build verif_harness

package cesium

import (
	"context"
	"io"
	"sync/atomic"

	"github.com/synnaxlabs/cesium/internal/channel"
	"github.com/synnaxlabs/cesium/internal/unary"
	"github.com/synnaxlabs/cesium/internal/virtual"
	"github.com/synnaxlabs/x/confluence"
	xcontrol "github.com/synnaxlabs/x/control"
	"github.com/synnaxlabs/x/errors"
	xfs "github.com/synnaxlabs/x/io/fs"
	"github.com/synnaxlabs/x/telem"
)

//verif:assume VerifC05StreamWrite: the cesium DB is assembled from real unary databases over the in-memory file system without Open's directory scan, migrations, control-digest channel or relay goroutines (the relay inlet is a buffered stream the harness reads); channel metadata uses a stub codec

// verifMetaCodec stores channel metadata as a handle (the JSON encoding of meta.json is not the subject here).
type verifMetaCodec struct{ vals []channel.Channel }

func (c *verifMetaCodec) Encode(_ context.Context, v any) ([]byte, error) {
	switch x := v.(type) {
	case channel.Channel:
		c.vals = append(c.vals, x)
	case *channel.Channel:
		c.vals = append(c.vals, *x)
	default:
		return nil, errors.New("verif meta codec: unsupported type")
	}
	return []byte{byte(len(c.vals) - 1)}, nil
}

func (c *verifMetaCodec) Decode(_ context.Context, b []byte, v any) error {
	p, ok := v.(*channel.Channel)
	if !ok || len(b) != 1 {
		return errors.New("verif meta codec: unsupported type")
	}
	*p = c.vals[b[0]]
	return nil
}

func (c *verifMetaCodec) EncodeStream(ctx context.Context, w io.Writer, v any) error {
	b, err := c.Encode(ctx, v)
	if err != nil {
		return err
	}
	_, err = w.Write(b)
	return err
}

func (c *verifMetaCodec) DecodeStream(ctx context.Context, r io.Reader, v any) error {
	var b [1]byte
	if _, err := io.ReadFull(r, b[:]); err != nil {
		return err
	}
	return c.Decode(ctx, b[:], v)
}

const (
	verifIdxKey  ChannelKey = 1
	verifDataKey ChannelKey = 2
)

// verifStreamDB assembles a DB with one index channel and one data channel indexed by it.
func verifStreamDB(ctx context.Context) (*DB, confluence.Outlet[relayResponse]) {
	fs := xfs.NewMem()
	codec := &verifMetaCodec{}
	open := func(dir string, ch channel.Channel) *unary.DB {
		sub, err := fs.Sub(dir)
		if err != nil {
			panic(err)
		}
		u, err := unary.Open(ctx, unary.Config{FS: sub, MetaCodec: codec, Channel: ch})
		if err != nil {
			panic(err)
		}
		return u
	}
	idx := open("1", channel.Channel{Key: verifIdxKey, Name: "idx", DataType: telem.TimeStampT, IsIndex: true, Index: verifIdxKey})
	data := open("2", channel.Channel{Key: verifDataKey, Name: "data", DataType: telem.Int64T, Index: verifIdxKey})
	data.SetIndex(idx.Index())
	stream := confluence.NewStream[relayResponse](8)
	db := &DB{options: &options{fs: fs, metaCodec: codec}, closed: &atomic.Bool{}, relay: &relay{inlet: stream}}
	db.mu.dbs.unary = map[ChannelKey]unary.DB{verifIdxKey: *idx, verifDataKey: *data}
	db.mu.dbs.virtual = map[ChannelKey]virtual.DB{}
	return db, stream
}

// VerifC05StreamWrite: two stream writers are open on the same index+data channel pair with arbitrary
// authorities per channel; the second one writes a frame. Exactly the series of channels it controls (and, for
// the data channel, only if it also controls the index) are persisted and relayed; the others are reported
// unauthorized, excluded from the relayed frame and leave no trace in storage.
func VerifC05StreamWrite() {
	ctx := context.Background()
	db, relayed := verifStreamDB(ctx)
	auths := [3]xcontrol.Authority{1, 100, 200}
	pick := func(label string) xcontrol.Authority { return auths[verifLen(label, 0, 2)] }
	a1 := [2]xcontrol.Authority{pick("w1.idx"), pick("w1.data")}
	a2 := [2]xcontrol.Authority{pick("w2.idx"), pick("w2.data")}
	yes, no := true, false
	open := func(name string, a [2]xcontrol.Authority) *streamWriter {
		w, err := db.newStreamWriter(ctx, WriterConfig{
			ControlSubject: xcontrol.Subject{Key: name, Name: name},
			Start:          10 * telem.SecondTS,
			Channels:       []ChannelKey{verifIdxKey, verifDataKey},
			Authorities:    []xcontrol.Authority{a[0], a[1]},
			Mode:           WriterModePersistStream,
			Sync:           &yes, EnableAutoCommit: &no, ErrOnUnauthorized: &no, AutoIndex: &no,
		})
		if err != nil {
			panic(err)
		}
		return w
	}
	w1 := open("w1", a1)
	w2 := open("w2", a2)
	// w1 opened first: w2 controls a channel only with strictly higher authority
	ctlIdx, ctlData := a2[0] > a1[0], a2[1] > a1[1]

	u64s := func(vs ...uint64) []byte {
		out := make([]byte, 0, 8*len(vs))
		for _, v := range vs {
			var x [8]byte
			telem.ByteOrder.PutUint64(x[:], v)
			out = append(out, x[:]...)
		}
		return out
	}
	fr := telem.MultiFrame(
		[]ChannelKey{verifIdxKey, verifDataKey},
		[]telem.Series{
			{DataType: telem.TimeStampT, Data: u64s(uint64(10*telem.SecondTS), uint64(11*telem.SecondTS))},
			{DataType: telem.Int64T, Data: u64s(7, 8)},
		},
	)
	err := w2.write(ctx, WriterRequest{Command: WriterCommandWrite, Frame: fr})
	allOK := ctlIdx && ctlData
	verifAssert("write-unauthorized-iff-some-channel-not-controlled", (err != nil) == !allOK)
	if err != nil {
		verifAssert("write-error-is-unauthorized", errors.Is(err, xcontrol.ErrUnauthorized))
	}
	// relayed frame
	var rel relayResponse
	gotRelay := false
	select {
	case rel = <-relayed.Outlet():
		gotRelay = true
	default:
	}
	verifAssert("write-relays-one-frame", gotRelay)
	hasIdx, hasData := false, false
	if gotRelay {
		for _, k := range rel.frame.KeysSlice() {
			if k == verifIdxKey {
				hasIdx = true
			}
			if k == verifDataKey {
				hasData = true
			}
		}
	}
	verifAssert("relay-has-index-iff-controlled", hasIdx == ctlIdx)
	verifAssert("relay-has-data-iff-index-and-data-controlled", hasData == (ctlIdx && ctlData))
	// persistence: commit and close both writers, then read back
	_, cerr := w2.commit(ctx)
	_ = cerr
	_ = w2.close(ctx)
	_ = w1.close(ctx)
	count := func(key ChannelKey) int64 {
		u := db.mu.dbs.unary[key]
		f, rerr := u.Read(ctx, telem.TimeRangeMax)
		if rerr != nil {
			return -1
		}
		return f.Len()
	}
	nIdx, nData := count(verifIdxKey), count(verifDataKey)
	if !ctlIdx {
		verifAssert("unauthorized-index-write-leaves-no-trace", nIdx == 0)
	}
	if !(ctlIdx && ctlData) {
		verifAssert("unauthorized-data-write-leaves-no-trace", nData == 0)
	}
	if ctlIdx && ctlData {
		verifAssert("authorized-write-is-persisted", nIdx == 2 && nData == 2)
	}
	// (a group that lost only its data channel does not commit its accepted index samples either: the
	// property does not say whether it should, so that case is not asserted)
	verifReach("end")
}

// VerifC05StreamOpenRefused: with ErrOnUnauthorized, opening a writer on an index, a data and a virtual channel
// that another writer holds fails cleanly exactly when the newcomer would not control every channel, and a
// refused open leaves nothing behind: the holder still controls every channel and a later, identical open is
// refused the same way (no gate of the refused writer stays registered).
func VerifC05StreamOpenRefused() {
	ctx := context.Background()
	db, _ := verifStreamDB(ctx)
	const virtKey ChannelKey = 3
	if err := db.CreateChannel(ctx, Channel{Key: virtKey, Name: "virt", DataType: telem.Int64T, Virtual: true}); err != nil {
		panic(err)
	}
	auths := [3]xcontrol.Authority{1, 100, 200}
	pick := func(label string) xcontrol.Authority { return auths[verifLen(label, 0, 2)] }
	keys := []ChannelKey{verifIdxKey, verifDataKey, virtKey}
	a1 := []xcontrol.Authority{pick("w1.idx"), pick("w1.data"), pick("w1.virt")}
	a2 := []xcontrol.Authority{pick("w2.idx"), pick("w2.data"), pick("w2.virt")}
	yes, no := true, false
	open := func(name string, a []xcontrol.Authority, strict bool) (*streamWriter, error) {
		return db.newStreamWriter(ctx, WriterConfig{
			ControlSubject: xcontrol.Subject{Key: name, Name: name},
			Start:          10 * telem.SecondTS,
			Channels:       keys,
			Authorities:    a,
			Mode:           WriterModePersistStream,
			Sync:           &yes, EnableAutoCommit: &no, ErrOnUnauthorized: &strict, AutoIndex: &no,
		})
	}
	w1, err := open("w1", a1, false)
	if err != nil {
		panic(err)
	}
	// virtual channels are shared-mode: a writer of equal authority is admitted there
	controlsAll := a2[0] > a1[0] && a2[1] > a1[1] && a2[2] >= a1[2]
	_, err2 := open("w2", a2, true)
	verifAssert("strict-open-refused-iff-some-channel-not-controlled", (err2 != nil) == !controlsAll)
	if err2 == nil {
		return
	}
	verifAssert("refusal-is-unauthorized", errors.Is(err2, xcontrol.ErrUnauthorized))
	// nothing left behind: the same subject can try again and is refused the same way (a leftover gate would
	// make the retry fail with "already registered" or change who controls)
	_, err3 := open("w2", a2, true)
	verifAssert("retry-refused-the-same-way", err3 != nil && errors.Is(err3, xcontrol.ErrUnauthorized))
	// the holder still controls every channel
	fr := telem.MultiFrame(
		[]ChannelKey{virtKey},
		[]telem.Series{{DataType: telem.Int64T, Data: []byte{1, 0, 0, 0, 0, 0, 0, 0}}},
	)
	werr := w1.write(ctx, WriterRequest{Command: WriterCommandWrite, Frame: fr})
	verifAssert("holder-still-writes-after-refused-open", werr == nil)
	verifReach("end")
}
