//go:build verif_harness

package cesium

import (
	"context"

	"github.com/synnaxlabs/cesium/internal/unary"
	"github.com/synnaxlabs/x/telem"
)

// verifStamps reads a whole unary channel and returns its samples as 64-bit values.
func verifReadAll(ctx context.Context, db *DB, key ChannelKey) (out []uint64, ok bool) {
	u := db.mu.dbs.unary[key]
	f, err := u.Read(ctx, telem.TimeRangeMax)
	if err != nil {
		return nil, false
	}
	for s := range f.Series() {
		for i := 0; i+8 <= len(s.Data); i += 8 {
			out = append(out, telem.ByteOrder.Uint64(s.Data[i:i+8]))
		}
	}
	return out, true
}

func verifSameU64(a, b []uint64) bool {
	if len(a) != len(b) {
		return false
	}
	same := true
	for i := range a {
		if a[i] != b[i] {
			same = false
		}
	}
	return same
}

// VerifC04DeleteTimeRange: DB.DeleteTimeRange on an index channel and the data channel it indexes (two domains
// of samples each), for an arbitrary range and every selection/order of the two channels: data samples whose
// timestamps lie in the range disappear and no others; deleting from the index alone is refused exactly when
// the data channel still has data in that range, and then changes nothing; deleting both removes the range
// from both; a channel that was not named is untouched.
func VerifC04DeleteTimeRange() {
	ctx := context.Background()
	db, _ := verifStreamDB(ctx)
	u64s := func(vs ...uint64) []byte {
		out := make([]byte, 0, 8*len(vs))
		for _, v := range vs {
			var x [8]byte
			telem.ByteOrder.PutUint64(x[:], v)
			out = append(out, x[:]...)
		}
		return out
	}
	idxU, dataU := db.mu.dbs.unary[verifIdxKey], db.mu.dbs.unary[verifDataKey]
	stamps := []uint64{10, 12, 14, 30, 32}
	values := []uint64{100, 120, 140, 300, 320}
	must := func(err error) {
		if err != nil {
			panic(err)
		}
	}
	must(unary.Write(ctx, &idxU, 10, telem.Series{DataType: telem.TimeStampT, Data: u64s(10, 12, 14)}))
	must(unary.Write(ctx, &dataU, 10, telem.Series{DataType: telem.Int64T, Data: u64s(100, 120, 140)}))
	must(unary.Write(ctx, &idxU, 30, telem.Series{DataType: telem.TimeStampT, Data: u64s(30, 32)}))
	must(unary.Write(ctx, &dataU, 30, telem.Series{DataType: telem.Int64T, Data: u64s(300, 320)}))

	tr := telem.TimeRange{Start: telem.TimeStamp(verifInt64("tr.start")), End: telem.TimeStamp(verifInt64("tr.end"))}
	verifAssume(tr.Start >= 0 && tr.Start < tr.End && tr.End <= 50) // empty ranges are rejected by validation: not the subject
	sel := verifLen("channels", 0, 3)
	chs := [][]ChannelKey{{verifDataKey}, {verifIdxKey}, {verifIdxKey, verifDataKey}, {verifDataKey, verifIdxKey}}[sel]
	delData, delIdx := sel != 1, sel != 0

	err := db.DeleteTimeRange(ctx, chs, tr)

	in := func(ts uint64) bool { return int64(ts) >= int64(tr.Start) && int64(ts) < int64(tr.End) }
	// the data channel "has data" for a range when one of its domains [10,15) / [30,33) overlaps it
	overlaps := func(s, e int64) bool { return int64(tr.Start) < e && s < int64(tr.End) }
	dataHas := overlaps(10, 15) || overlaps(30, 33)
	var keptStamps, keptValues []uint64
	for i, ts := range stamps {
		if !in(ts) {
			keptStamps = append(keptStamps, ts)
			keptValues = append(keptValues, values[i])
		}
	}
	gotIdx, ok1 := verifReadAll(ctx, db, verifIdxKey)
	gotData, ok2 := verifReadAll(ctx, db, verifDataKey)
	verifAssert("reads-after-delete-succeed", ok1 && ok2)
	verifObserveBool("err", err != nil)
	switch {
	case !delIdx: // data only
		verifAssert("data-delete-succeeds", err == nil)
		verifAssert("data-delete-removes-exactly-the-range", verifSameU64(gotData, keptValues))
		verifAssert("unnamed-index-untouched", verifSameU64(gotIdx, stamps))
	case !delData: // index only
		verifAssert("index-delete-refused-iff-dependant-has-data", (err != nil) == dataHas)
		if err != nil {
			verifAssert("refused-index-delete-changes-nothing", verifSameU64(gotIdx, stamps) && verifSameU64(gotData, values))
		} else {
			verifAssert("index-delete-removes-exactly-the-range", verifSameU64(gotIdx, keptStamps))
			verifAssert("unnamed-data-untouched", verifSameU64(gotData, values))
		}
	default: // both, in either order
		// Observation (not asserted as a violation): when the range holds no sample but lies inside a data
		// domain, the data delete removes nothing, the domain still overlaps the range, and the index delete
		// is refused — the call fails although it would have been a no-op.
		anyIn := len(keptStamps) != len(stamps)
		if err != nil {
			verifAssert("delete-both-refused-only-for-a-sample-free-range-inside-a-domain", !anyIn && dataHas)
			verifAssert("refused-delete-both-changes-nothing", verifSameU64(gotIdx, stamps) && verifSameU64(gotData, values))
		} else {
			verifAssert("delete-both-removes-the-range-from-data", verifSameU64(gotData, keptValues))
			verifAssert("delete-both-removes-the-range-from-index", verifSameU64(gotIdx, keptStamps))
		}
		if anyIn {
			verifAssert("delete-both-succeeds-when-samples-are-in-range", err == nil)
		}
	}
	verifReach("end")
}
