//go:build verif_harness

package cesium

import (
	"context"

	"github.com/synnaxlabs/x/telem"
)

//verif:guard cesium.DB mu.dbs.unary mu.RWMutex only=VerifC09CesiumLockDiscipline
//verif:guard cesium.DB mu.dbs.virtual mu.RWMutex only=VerifC09CesiumLockDiscipline

// VerifC09CesiumLockDiscipline drives the channel-map entry points of cesium.DB on a database holding an index
// channel and a data channel; the engine checks at every load/store of DB.mu.dbs.unary / DB.mu.dbs.virtual
// (map header and elements) that DB.mu is held in a sufficient mode, that no lock is unlocked twice or
// re-acquired while held, and that none is left held when the entry point returns.
func VerifC09CesiumLockDiscipline() {
	ctx := context.Background()
	db, _ := verifStreamDB(ctx)
	yes, no := true, false
	tr := telem.TimeRange{Start: telem.TimeStamp(verifInt64("tr.start")), End: telem.TimeStamp(verifInt64("tr.end"))}
	verifAssume(tr.Start >= 0 && tr.Start < tr.End && tr.End <= 50)
	switch verifLen("op", 0, 9) {
	case 0:
		_ = db.CreateChannel(ctx, Channel{Key: 3, Name: "c3", DataType: telem.Int64T, Index: verifIdxKey})
	case 1:
		_ = db.CreateChannel(ctx, Channel{Key: 4, Name: "v4", DataType: telem.Int64T, Virtual: true})
	case 2:
		_, _ = db.RetrieveChannel(ctx, ChannelKey(verifLen("key", 1, 3)))
	case 3:
		_, _ = db.RetrieveChannels(ctx, verifIdxKey, verifDataKey)
	case 4:
		_ = db.RenameChannel(ctx, verifDataKey, "renamed")
	case 5:
		_ = db.DeleteChannel(verifDataKey)
	case 6:
		_ = db.DeleteChannels([]ChannelKey{verifDataKey, verifIdxKey})
	case 7:
		_ = db.DeleteTimeRange(ctx, []ChannelKey{verifIdxKey, verifDataKey}, tr)
	case 8:
		_, _ = db.NewStreamWriter(ctx, WriterConfig{
			Start: 10, Channels: []ChannelKey{verifIdxKey, verifDataKey},
			Sync: &yes, EnableAutoCommit: &no, ErrOnUnauthorized: &no, AutoIndex: &no,
		})
	case 9:
		_ = db.RekeyChannel(ctx, verifDataKey, 7)
	}
	verifReach("end")
}
