//go:build verif_harness

package cesium

import (
	"context"
	"strconv"
	"sync/atomic"

	"github.com/synnaxlabs/cesium/internal/channel"
	"github.com/synnaxlabs/cesium/internal/unary"
	"github.com/synnaxlabs/cesium/internal/virtual"
	xcontrol "github.com/synnaxlabs/x/control"
	"github.com/synnaxlabs/x/encoding"
	xfs "github.com/synnaxlabs/x/io/fs"
	"github.com/synnaxlabs/x/telem"
)

//verif:assume VerifC02ChannelCrash: the DB is opened by the directory scan of cesium.Open (list the root, parse directory names, openVirtualOrUnary each) without its relay and GC goroutines, and closed by closing every unary DB; channel metadata uses a one-byte stub codec, so a torn meta.json.tmp is either empty or complete

// verifOpenScan is the synchronous part of cesium.Open: the scan of the root directory.
func verifOpenScan(ctx context.Context, fs xfs.FS, codec encoding.Codec) (*DB, error) {
	info, err := fs.List("")
	if err != nil {
		return nil, err
	}
	db := &DB{options: &options{fs: fs, metaCodec: codec}, closed: &atomic.Bool{}}
	db.mu.dbs.unary = make(map[channel.Key]unary.DB, len(info))
	db.mu.dbs.virtual = make(map[channel.Key]virtual.DB, len(info))
	for _, i := range info {
		if !i.IsDir() {
			continue
		}
		key, err := strconv.Atoi(i.Name())
		if err != nil {
			continue
		}
		if err = db.openVirtualOrUnary(ctx, Channel{Key: ChannelKey(key)}); err != nil {
			return nil, err
		}
	}
	return db, nil
}

// verifUnaryWrite is unary.Write with auto-commit off, so that whether the commit persists the index does not
// depend on the clock (a clock-dependent path could not be replayed natively).
func verifUnaryWrite(ctx context.Context, u *unary.DB, start telem.TimeStamp, series telem.Series) error {
	no := false
	w, _, err := u.OpenWriter(ctx, unary.WriterConfig{
		Start: start, Authority: xcontrol.AuthorityAbsolute, Subject: xcontrol.Subject{Key: "w"}, EnableAutoCommit: &no,
	})
	if err != nil {
		return err
	}
	if _, err = w.Write(series); err == nil {
		_, err = w.Commit(ctx)
	}
	_, cerr := w.Close()
	if err == nil {
		err = cerr
	}
	return err
}

func verifCloseAll(db *DB) error {
	var err error
	for _, u := range db.mu.dbs.unary {
		if e := u.Close(); e != nil {
			err = e
		}
	}
	return err
}

// VerifC02ChannelCrash: a script creates an index channel and a data channel, writes and commits samples to
// both, deletes the data channel and closes everything, on a file system that kills the process at an arbitrary
// mutating call; the database is then reopened by the directory scan. Reopening must succeed; a channel whose
// creation completed is there with its definition; samples whose commit completed are read back exactly, and
// nothing is read that was never written.
func VerifC02ChannelCrash() {
	ctx := context.Background()
	mem := xfs.NewMem()
	st := &xfs.VerifCrashState{Budget: verifLen("crash-at", 0, verifParam("mutations", 50))}
	cfs := &xfs.VerifCrashFS{FS: mem, St: st}
	codec := &verifMetaCodec{}
	idxCh := Channel{Key: verifIdxKey, Name: "idx", DataType: telem.TimeStampT, IsIndex: true}
	dataCh := Channel{Key: verifDataKey, Name: "data", DataType: telem.Int64T, Index: verifIdxKey}
	u64s := func(vs ...uint64) []byte {
		out := make([]byte, 0, 8*len(vs))
		for _, v := range vs {
			var x [8]byte
			telem.ByteOrder.PutUint64(x[:], v)
			out = append(out, x[:]...)
		}
		return out
	}
	createdIdx, createdData, wroteIdx, wroteData, deletedData := false, false, false, false, false
	deleting := false
	xfs.VerifCrashRun(func() {
		db, err := verifOpenScan(ctx, cfs, codec)
		if err != nil {
			panic(err)
		}
		if err = db.CreateChannel(ctx, idxCh); err != nil {
			panic(err)
		}
		createdIdx = true
		if err = db.CreateChannel(ctx, dataCh); err != nil {
			panic(err)
		}
		createdData = true
		iu, du := db.mu.dbs.unary[verifIdxKey], db.mu.dbs.unary[verifDataKey]
		if err = verifUnaryWrite(ctx, &iu, 10, telem.Series{DataType: telem.TimeStampT, Data: u64s(10, 12)}); err != nil {
			panic(err)
		}
		wroteIdx = true
		if err = verifUnaryWrite(ctx, &du, 10, telem.Series{DataType: telem.Int64T, Data: u64s(100, 120)}); err != nil {
			panic(err)
		}
		wroteData = true
		if verifBool("delete-data-channel") {
			deleting = true
			if err = db.DeleteChannel(verifDataKey); err != nil {
				panic(err)
			}
			deleting = false
			deletedData = true
		}
		if err = verifCloseAll(db); err != nil {
			panic(err)
		}
	})
	verifObserveBool("crashed", st.Crashed)
	verifObserve("site", int64(st.Site))
	if !st.Crashed {
		verifReach("script-completed")
		for _, k := range st.Log {
			verifObserve("mutation", int64(k))
		}
	}
	// Known finding C02-create-channel-crash-blocks-open: CreateChannel makes the numeric directory first and
	// renames meta.json into it later; a crash in between leaves a numeric directory without meta.json, which
	// Open refuses by design (open_test.go "Should error when numeric folders do not have meta.json file").
	orphanDir := false
	for _, d := range []string{"1", "2"} {
		if ex, _ := mem.Exists(d); ex {
			if hasMeta, _ := mem.Exists(d + "/meta.json"); !hasMeta {
				orphanDir = true
			}
		}
	}
	ndb, err := verifOpenScan(ctx, mem, codec)
	verifAssertKnown("reopen-after-crash-succeeds", err == nil, "C02-create-channel-crash-blocks-open", st.Crashed && orphanDir)
	if err != nil {
		return
	}
	iu, hasIdx := ndb.mu.dbs.unary[verifIdxKey]
	du, hasData := ndb.mu.dbs.unary[verifDataKey]
	if createdIdx {
		verifAssert("created-index-channel-survives", hasIdx && iu.Channel().IsIndex && iu.Channel().DataType == telem.TimeStampT)
	}
	if createdData && !deleting && !deletedData {
		verifAssert("created-data-channel-survives", hasData && du.Channel().Index == verifIdxKey && du.Channel().DataType == telem.Int64T)
	}
	if deletedData {
		verifAssert("deleted-channel-stays-deleted", !hasData)
	}
	if hasIdx {
		got, ok := verifReadAll(ctx, ndb, verifIdxKey)
		verifAssert("index-read-after-reopen-succeeds", ok)
		if wroteIdx {
			verifAssert("committed-index-samples-intact", verifSameU64(got, []uint64{10, 12}))
		} else {
			verifAssert("index-holds-nothing-that-was-not-written", len(got) == 0 || verifSameU64(got, []uint64{10, 12}))
		}
	}
	if hasData {
		got, ok := verifReadAll(ctx, ndb, verifDataKey)
		verifAssert("data-read-after-reopen-succeeds", ok)
		if wroteData {
			verifAssert("committed-data-samples-intact", verifSameU64(got, []uint64{100, 120}))
		} else {
			verifAssert("data-holds-nothing-that-was-not-written", len(got) == 0 || verifSameU64(got, []uint64{100, 120}))
		}
	}
	verifReach("end")
}
