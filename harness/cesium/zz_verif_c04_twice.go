//go:build verif_harness

package cesium

import (
	"context"

	"github.com/synnaxlabs/x/telem"
)

// verifReadRange reads [lo, hi) of one unary channel and returns the samples.
func verifReadRange(ctx context.Context, db *DB, key ChannelKey, tr telem.TimeRange) (out []uint64, ok bool) {
	u := db.mu.dbs.unary[key]
	f, err := u.Read(ctx, tr)
	if err != nil {
		return nil, false
	}
	for s := range f.Series() {
		for i := 0; i+8 <= len(s.Data); i += 8 {
			out = append(out, telem.ByteOrder.Uint64(s.Data[i:i+8]))
		}
	}
	return out, true
}

// VerifC04DeleteTwice: two successive DB.DeleteTimeRange calls with arbitrary ranges and channel selections on
// an index channel and the data channel it indexes. The channels hold one domain of four samples whose writer
// start either is the first sample or lies before it. After each call: a delete that names the data channel
// only always succeeds; a refused call changes nothing; the samples of every named channel that lie in the
// range are gone and all others are still returned by a whole-channel read; and a read of the data channel
// bounded by an arbitrary end stamp returns exactly the kept samples before that stamp.
func VerifC04DeleteTwice() {
	ctx := context.Background()
	db, _ := verifStreamDB(ctx)
	u64s := func(vs ...uint64) []byte {
		out := make([]byte, 0, 8*len(vs))
		for _, v := range vs {
			var x [8]byte
			telem.ByteOrder.PutUint64(x[:], v)
			out = append(out, x[:]...)
		}
		return out
	}
	idxU, dataU := db.mu.dbs.unary[verifIdxKey], db.mu.dbs.unary[verifDataKey]
	stamps := []uint64{10, 13, 16, 19}[:verifParam("samples", 4)]
	values := make([]uint64, len(stamps))
	for i, t := range stamps {
		values[i] = t * 10
	}
	must := func(err error) {
		if err != nil {
			panic(err)
		}
	}
	start := telem.TimeStamp(10)
	if verifBool("writerStartsBeforeFirstSample") {
		start = 8
	}
	must(verifUnaryWrite(ctx, &idxU, start, telem.Series{DataType: telem.TimeStampT, Data: u64s(stamps...)}))
	must(verifUnaryWrite(ctx, &dataU, start, telem.Series{DataType: telem.Int64T, Data: u64s(values...)}))

	maxT := telem.TimeStamp(stamps[len(stamps)-1] + 5)
	// gaps: closed stamp intervals [last kept sample + 1, a] left behind by an earlier delete that started
	// exactly on sample a (known finding C04-exact-cut-head-end-stale)
	var gaps [][2]int64
	inGap := func(lo, hi int64) bool {
		for _, g := range gaps {
			if lo <= g[1] && g[0] <= hi {
				return true
			}
		}
		return false
	}
	const finding = "C04-exact-cut-head-end-stale"
	keptIdx := append([]uint64{}, stamps...)
	keptDataTS := append([]uint64{}, stamps...)
	valueOf := func(ts uint64) uint64 { return ts * 10 }
	dels := verifParam("dels", 2)
	for d := 0; d < dels; d++ {
		tr := telem.TimeRange{Start: telem.TimeStamp(verifInt64("tr.start")), End: telem.TimeStamp(verifInt64("tr.end"))}
		verifAssume(tr.Start >= 0 && tr.Start < tr.End && tr.End <= maxT)
		sel := verifLen("channels", 0, 2)
		chs := [][]ChannelKey{{verifDataKey}, {verifIdxKey, verifDataKey}, {verifIdxKey}}[sel]
		delData, delIdx := sel != 2, sel != 0
		in := func(ts uint64) bool { return int64(ts) >= int64(tr.Start) && int64(ts) < int64(tr.End) }
		dataHas, herr := dataU.HasDataFor(ctx, tr)
		must(herr)

		err := db.DeleteTimeRange(ctx, chs, tr)
		verifObserveBool("err", err != nil)

		filter := func(ts []uint64) (out []uint64, any bool) {
			for _, t := range ts {
				if in(t) {
					any = true
				} else {
					out = append(out, t)
				}
			}
			return
		}
		afterData, anyData := filter(keptDataTS)
		afterIdx, anyIdx := filter(keptIdx)
		known := inGap(int64(tr.Start), int64(tr.End))
		switch {
		case !delIdx:
			verifAssertKnown("data-delete-succeeds", err == nil, finding, known)
		case !delData:
			verifAssert("index-delete-refused-iff-dependant-has-data", (err != nil) == dataHas)
		default:
			if anyData || anyIdx {
				verifAssertKnown("delete-both-succeeds-when-samples-are-in-range", err == nil, finding, known)
			}
		}
		if err == nil {
			// a cut that starts exactly on a kept sample, with an earlier kept sample before it, leaves the
			// kept head ending at the cut rather than right after its last sample
			stale := func(kept []uint64) {
				for i, t := range kept {
					if i > 0 && int64(t) == int64(tr.Start) {
						gaps = append(gaps, [2]int64{int64(kept[i-1]) + 1, int64(t)})
					}
				}
			}
			if delData {
				stale(keptDataTS)
				keptDataTS = afterData
			}
			if delIdx {
				stale(keptIdx)
				keptIdx = afterIdx
			}
		}
		gotIdx, ok1 := verifReadAll(ctx, db, verifIdxKey)
		gotData, ok2 := verifReadAll(ctx, db, verifDataKey)
		verifAssert("reads-after-delete-succeed", ok1 && ok2)
		wantData := make([]uint64, len(keptDataTS))
		for i, t := range keptDataTS {
			wantData[i] = valueOf(t)
		}
		verifAssert("index-holds-exactly-the-kept-stamps", verifSameU64(gotIdx, keptIdx))
		verifAssert("data-holds-exactly-the-kept-samples", verifSameU64(gotData, wantData))
	}
	// a bounded read of the data channel
	hi := telem.TimeStamp(verifInt64("read.end"))
	verifAssume(hi >= 1 && hi <= maxT)
	var wantBounded []uint64
	for _, t := range keptDataTS {
		if int64(t) < int64(hi) {
			wantBounded = append(wantBounded, valueOf(t))
		}
	}
	got, ok := verifReadRange(ctx, db, verifDataKey, telem.TimeRange{Start: 0, End: hi})
	knownRead := inGap(int64(hi), int64(hi))
	verifAssertKnown("bounded-read-succeeds", ok, finding, knownRead)
	verifAssertKnown("bounded-read-returns-exactly-the-kept-samples-before-its-end", verifSameU64(got, wantBounded), finding, knownRead)
	verifReach("end")
}
