//go:build verif_harness

package unary

import (
	"context"
	"sync/atomic"

	"github.com/synnaxlabs/cesium/internal/channel"
	"github.com/synnaxlabs/cesium/internal/domain"
	"github.com/synnaxlabs/cesium/internal/index"
	"github.com/synnaxlabs/x/telem"
)

// verifDataChannelDB builds a uint8 data channel indexed by a timestamp channel. The index holds two contiguous
// domains (as after an index file rollover) of 1..s samples each; the data channel holds the same samples either in
// one domain spanning both index domains or in two domains mirroring them. Returns the data DB, the timestamps and
// the data bytes (one byte per sample).
func verifDataChannelDB(s int) (*DB, []telem.TimeStamp, []byte) {
	return verifDataChannelDBN(s, 2)
}

// verifDataChannelDBN is verifDataChannelDB with k contiguous index domains.
func verifDataChannelDBN(s, k int) (*DB, []telem.TimeStamp, []byte) {
	var (
		ispecs []domain.VerifDomainSpec
		all    []telem.TimeStamp
		counts []int
		prev   = telem.TimeStamp(-1)
	)
	for i := 0; i < k; i++ {
		n := verifLen("samples", 1, s)
		start := telem.TimeStamp(verifInt64("i.start"))
		if i == 0 {
			verifAssume(start >= 0)
		} else {
			verifAssume(start == prev) // contiguous with the previous index domain
		}
		ts, data := index.VerifStamps("t", n, start-1)
		verifAssume(ts[0] == start || i > 0) // the first domain starts on its first sample
		verifAssume(ts[n-1] < 1<<62) // keeps last+1 and later stamps away from the int64 wrap
		end := ts[n-1] + 1
		ispecs = append(ispecs, domain.VerifDomainSpec{Start: start, End: end, Data: data})
		all = append(all, ts...)
		counts = append(counts, n)
		prev = end
	}
	idb := domain.VerifBuildDB(ispecs)
	ich := channel.Channel{Key: 1, Name: "idx", IsIndex: true, Index: 1, DataType: telem.TimeStampT}
	bytesAll := verifBytes("data", len(all))
	var dspecs []domain.VerifDomainSpec
	if verifBool("data-merged") {
		dspecs = []domain.VerifDomainSpec{{Start: ispecs[0].Start, End: ispecs[k-1].End, Data: bytesAll}}
	} else {
		off := 0
		for i := 0; i < k; i++ {
			dspecs = append(dspecs, domain.VerifDomainSpec{Start: ispecs[i].Start, End: ispecs[i].End, Data: bytesAll[off : off+counts[i]]})
			off += counts[i]
		}
	}
	ddb := domain.VerifBuildDB(dspecs)
	dch := channel.Channel{Key: 2, Name: "data", Index: 1, DataType: telem.Uint8T}
	db := &DB{
		domain:           ddb,
		closed:           &atomic.Bool{},
		leadingAlignment: &atomic.Uint32{},
		wrapError:        func(err error) error { return err },
		resolver:         newOffsetResolver(dch.DataType, ddbInstr()),
		cfg:              Config{Channel: dch},
	}
	db.idx = &index.Domain{DB: idb, Channel: ich}
	return db, all, bytesAll
}

func verifHDataExactly(got []byte, all []telem.TimeStamp, data []byte, view telem.TimeRange) bool {
	var want []byte
	for i, t := range all {
		if t >= view.Start && t < view.End {
			want = append(want, data[i])
		}
	}
	if len(got) != len(want) {
		return false
	}
	for i := range got {
		if got[i] != want[i] {
			return false
		}
	}
	return true
}

// VerifC01DataRead: reading any range of a data channel returns exactly the bytes of the samples whose index
// timestamps lie in the range, also when the index is split into more domains than the data.
func VerifC01DataRead() {
	verifDataRead(verifParam("samples", 2), 2)
}

// VerifC01DataReadRolled: the same with an index that rolled over twice (three contiguous index domains) under
// one data domain, so that read bounds can fall on the boundary between two later index domains.
func VerifC01DataReadRolled() {
	verifDataRead(verifParam("samples", 1), 3)
}

func verifDataRead(samples, idomains int) {
	db, all, data := verifDataChannelDBN(samples, idomains)
	tr := telem.TimeRange{Start: telem.TimeStamp(verifInt64("tr.start")), End: telem.TimeStamp(verifInt64("tr.end"))}
	verifAssume(tr.Start >= 0 && tr.Start < tr.End)
	fr, err := db.Read(context.Background(), tr)
	verifObserveBool("err", err != nil)
	verifAssert("data-read-no-error", err == nil)
	var got []byte
	for s := range fr.Series() {
		got = append(got, s.Data...)
	}
	verifObserve("got", int64(len(got)))
	verifAssert("data-read-exact", verifHDataExactly(got, all, data, tr))
	verifReach("end")
}

// VerifC10DataSteps: stepping over a data channel whose index is split differently from its data returns exactly
// the samples inside each reported view, without an error.
func VerifC10DataSteps() {
	db, all, data := verifDataChannelDB(verifParam("samples", 2))
	ctx := context.Background()
	b := telem.TimeRange{Start: telem.TimeStamp(verifInt64("b.start")), End: telem.TimeStamp(verifInt64("b.end"))}
	verifAssume(b.Start >= 0 && b.Start < b.End)
	it, err := db.OpenIterator(IterRange(b))
	verifAssume(err == nil)
	collect := func() []byte {
		var got []byte
		for s := range it.Value().Series() {
			got = append(got, s.Data...)
		}
		return got
	}
	if verifBool("forward") {
		if it.SeekFirst(ctx) {
			span := telem.TimeSpan(verifInt64("span"))
			verifAssume(span > 0)
			valid := it.Next(ctx, span)
			got := collect()
			verifAssert("data-next-no-error", it.Error() == nil)
			verifAssert("data-next-exact", verifHDataExactly(got, all, data, it.View()))
			verifAssert("data-next-valid-iff-samples", valid == (len(got) > 0))
		}
	} else {
		if it.SeekLast(ctx) {
			span := telem.TimeSpan(verifInt64("span"))
			verifAssume(span > 0)
			valid := it.Prev(ctx, span)
			got := collect()
			verifAssert("data-prev-no-error", it.Error() == nil)
			verifAssert("data-prev-exact", verifHDataExactly(got, all, data, it.View()))
			verifAssert("data-prev-valid-iff-samples", valid == (len(got) > 0))
		}
	}
	verifAssert("close", it.Close() == nil)
	verifReach("end")
}
