//go:build verif_harness

package unary

import (
	"context"
	"sync/atomic"

	"github.com/synnaxlabs/alamos"

	"github.com/synnaxlabs/cesium/internal/channel"
	"github.com/synnaxlabs/cesium/internal/domain"
	"github.com/synnaxlabs/cesium/internal/index"
	xfs "github.com/synnaxlabs/x/io/fs"
	"github.com/synnaxlabs/x/telem"
)

// verifIndexChannelDB builds a self-indexed timestamp channel holding d domains with 1..s samples each.
func verifIndexChannelDB(d, s int) (*DB, []telem.TimeStamp, []domain.VerifDomainSpec) {
	return verifIndexChannelDBAligned(d, s, false)
}

// verifIndexChannelDBAligned: with aligned set, every domain starts exactly on its first sample (the documented
// writer contract: Start is the timestamp of the first sample written).
func verifIndexChannelDBAligned(d, s int, aligned bool) (*DB, []telem.TimeStamp, []domain.VerifDomainSpec) {
	return verifIndexChannelDBShaped(d, s, aligned, false)
}

// verifIndexChannelDBShaped: tightEnd additionally makes every domain end exactly one nanosecond after its last
// sample, which is what every commit of an index channel through the cesium API produces (end = high-water + 1).
func verifIndexChannelDBShaped(d, s int, aligned, tightEnd bool) (*DB, []telem.TimeStamp, []domain.VerifDomainSpec) {
	var (
		specs []domain.VerifDomainSpec
		all   []telem.TimeStamp
		prev  = telem.TimeStamp(-1)
	)
	for i := 0; i < d; i++ {
		n := verifLen("samples", 1, s)
		start := telem.TimeStamp(verifInt64("d.start"))
		verifAssume(start > prev || (i > 0 && start == prev))
		ts, data := index.VerifStamps("t", n, start-1)
		if aligned {
			verifAssume(ts[0] == start)
		}
		end := telem.TimeStamp(verifInt64("d.end"))
		verifAssume(end > ts[n-1])
		if tightEnd {
			verifAssume(end == ts[n-1]+1)
		}
		specs = append(specs, domain.VerifDomainSpec{Start: start, End: end, Data: data})
		all = append(all, ts...)
		prev = end
	}
	// the domains are written in an arbitrary order (histories with out-of-order writers)
	order := make([]int, 0, d)
	for i := 0; i < d; i++ {
		pos := 0
		if i > 0 {
			pos = verifLen("write-order", 0, i)
		}
		order = append(order, 0)
		copy(order[pos+1:], order[pos:])
		order[pos] = i
	}
	fs := xfs.NewMem()
	ddb := domain.VerifBuildRealDB(fs, specs, order)
	if verifParam("reopen", 1) == 1 && verifBool("close-and-reopen") {
		ddb = domain.VerifReopen(ddb, fs)
	}
	ch := channel.Channel{Key: 1, Name: "idx", IsIndex: true, Index: 1, DataType: telem.TimeStampT}
	db := &DB{
		domain:           ddb,
		closed:           &atomic.Bool{},
		leadingAlignment: &atomic.Uint32{},
		wrapError:        func(err error) error { return err },
		resolver:         newOffsetResolver(ch.DataType, ddbInstr()),
		cfg:              Config{Channel: ch},
	}
	db.idx = &index.Domain{DB: ddb, Channel: ch}
	return db, all, specs
}

// VerifC01UnaryRead: reading any time range of an index channel returns exactly the stored samples inside it,
// each once, in ascending order.
func VerifC01UnaryRead() {
	d := verifLen("domains", 1, verifParam("domains", 2))
	db, all, _ := verifIndexChannelDB(d, verifParam("samples", 2))
	tr := telem.TimeRange{Start: telem.TimeStamp(verifInt64("tr.start")), End: telem.TimeStamp(verifInt64("tr.end"))}
	verifAssume(tr.Start >= 0 && tr.Start < tr.End)
	fr, err := db.Read(context.Background(), tr)
	verifAssert("read-no-error", err == nil)
	var got []telem.TimeStamp
	for s := range fr.Series() {
		for i := 0; i+8 <= len(s.Data); i += 8 {
			got = append(got, telem.TimeStamp(telem.ByteOrder.Uint64(s.Data[i:i+8])))
		}
		verifAssert("series-whole-samples", len(s.Data)%8 == 0)
	}
	var want []telem.TimeStamp
	for _, t := range all {
		if t >= tr.Start && t < tr.End {
			want = append(want, t)
		}
	}
	verifObserve("got", int64(len(got)))
	verifAssert("read-count", len(got) == len(want))
	ok := len(got) == len(want)
	if ok {
		for i := range got {
			if got[i] != want[i] {
				ok = false
			}
		}
	}
	verifAssert("read-exact-samples-in-order", ok)
	verifReach("end")
}

func ddbInstr() (ins alamos.Instrumentation) { return }

// VerifC01UnaryReadDense: as VerifC01UnaryRead on a single domain with more samples.
func VerifC01UnaryReadDense() {
	db, all, _ := verifIndexChannelDB(1, verifParam("dense", 3))
	tr := telem.TimeRange{Start: telem.TimeStamp(verifInt64("tr.start")), End: telem.TimeStamp(verifInt64("tr.end"))}
	verifAssume(tr.Start >= 0 && tr.Start < tr.End)
	fr, err := db.Read(context.Background(), tr)
	verifAssert("dense-read-no-error", err == nil)
	var got []telem.TimeStamp
	for s := range fr.Series() {
		for i := 0; i+8 <= len(s.Data); i += 8 {
			got = append(got, telem.TimeStamp(telem.ByteOrder.Uint64(s.Data[i:i+8])))
		}
	}
	var want []telem.TimeStamp
	for _, t := range all {
		if t >= tr.Start && t < tr.End {
			want = append(want, t)
		}
	}
	ok := len(got) == len(want)
	if ok {
		for i := range got {
			if got[i] != want[i] {
				ok = false
			}
		}
	}
	verifAssert("dense-read-exact-samples-in-order", ok)
	verifReach("end")
}
