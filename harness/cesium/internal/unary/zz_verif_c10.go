//go:build verif_harness

package unary

import (
	"context"
	"sync/atomic"

	"github.com/synnaxlabs/cesium/internal/channel"
	"github.com/synnaxlabs/cesium/internal/domain"
	"github.com/synnaxlabs/cesium/internal/index"
	"github.com/synnaxlabs/x/telem"
)

func verifFrameStamps(it *Iterator) []telem.TimeStamp {
	var got []telem.TimeStamp
	for s := range it.Value().Series() {
		for i := 0; i+8 <= len(s.Data); i += 8 {
			got = append(got, telem.TimeStamp(telem.ByteOrder.Uint64(s.Data[i:i+8])))
		}
	}
	return got
}

func verifHExactly(got, all []telem.TimeStamp, view telem.TimeRange) bool {
	var want []telem.TimeStamp
	for _, t := range all {
		if t >= view.Start && t < view.End {
			want = append(want, t)
		}
	}
	if len(got) != len(want) {
		return false
	}
	for i := range got {
		if got[i] != want[i] {
			return false
		}
	}
	return true
}

// VerifC10UnarySteps: after SeekFirst, every Next(span) step with an arbitrary positive span returns exactly the
// stored samples inside the view it reports; consecutive views are adjacent, never leave the bounds, and the
// iterator is valid exactly when the view holds samples. Mirror image for SeekLast / Prev(span).
func VerifC10UnarySteps() {
	d := verifLen("domains", 1, verifParam("domains", 2))
	db, all, specs := verifIndexChannelDB(d, verifParam("samples", 2))
	ctx := context.Background()
	b := telem.TimeRange{Start: telem.TimeStamp(verifInt64("b.start")), End: telem.TimeStamp(verifInt64("b.end"))}
	verifAssume(b.Start >= 0 && b.Start < b.End)
	it, err := db.OpenIterator(IterRange(b))
	verifAssume(err == nil)
	forward := verifBool("forward")
	steps := verifParam("steps", 2)
	if forward {
		ok := it.SeekFirst(ctx)
		anyDomain := false
		for _, s := range specs {
			if s.Start < b.End && b.Start < s.End {
				anyDomain = true
			}
		}
		verifAssert("seekfirst-iff-domain-in-bounds", ok == anyDomain)
		if ok {
			prevEnd := it.View().End
			for k := 0; k < steps; k++ {
				span := telem.TimeSpan(verifInt64("span"))
				verifAssume(span > 0)
				atEnd := prevEnd == b.End
				valid := it.Next(ctx, span)
				v := it.View()
				verifAssert("next-view-inside-bounds", v.Start >= b.Start && v.End <= b.End && v.Start <= v.End)
				if !atEnd {
					verifAssert("next-views-adjacent", v.Start == prevEnd)
					wantEnd := prevEnd.Add(span)
					if wantEnd > b.End {
						wantEnd = b.End
					}
					verifAssert("next-view-end", v.End == wantEnd)
				}
				got := verifFrameStamps(it)
				verifAssert("next-exact-samples", verifHExactly(got, all, v))
				verifAssert("next-valid-iff-samples", valid == (len(got) > 0))
				prevEnd = v.End
			}
		}
	} else {
		ok := it.SeekLast(ctx)
		if ok {
			prevStart := it.View().Start
			for k := 0; k < steps; k++ {
				span := telem.TimeSpan(verifInt64("span"))
				verifAssume(span > 0)
				atStart := prevStart == b.Start
				valid := it.Prev(ctx, span)
				v := it.View()
				verifAssert("prev-view-inside-bounds", v.Start >= b.Start && v.End <= b.End && v.Start <= v.End)
				if !atStart {
					verifAssert("prev-views-adjacent", v.End == prevStart)
				}
				got := verifFrameStamps(it)
				verifAssert("prev-exact-samples", verifHExactly(got, all, v))
				verifAssert("prev-valid-iff-samples", valid == (len(got) > 0))
				prevStart = v.Start
			}
		}
	}
	verifAssert("close", it.Close() == nil)
	verifReach("end")
}

// VerifC10GappedWalk: a forward (or backward) walk of several steps with arbitrary spans over three gapped domains
// (fixed layout, two samples each) returns at every step exactly the samples inside the reported view; consecutive
// views are adjacent. The layout is concrete, the spans are symbolic.
func VerifC10GappedWalk() {
	mk := func(a, b int64) []byte {
		var out []byte
		for _, v := range []int64{a, b} {
			var x [8]byte
			telem.ByteOrder.PutUint64(x[:], uint64(v))
			out = append(out, x[:]...)
		}
		return out
	}
	specs := []domain.VerifDomainSpec{
		{Start: 10, End: 15, Data: mk(10, 14)},
		{Start: 30, End: 35, Data: mk(30, 34)},
		{Start: 50, End: 55, Data: mk(50, 54)},
	}
	all := []telem.TimeStamp{10, 14, 30, 34, 50, 54}
	ddb := domain.VerifBuildDB(specs)
	ch := channel.Channel{Key: 1, Name: "idx", IsIndex: true, Index: 1, DataType: telem.TimeStampT}
	db := &DB{domain: ddb, closed: &atomic.Bool{}, leadingAlignment: &atomic.Uint32{}, wrapError: func(err error) error { return err },
		resolver: newOffsetResolver(ch.DataType, ddbInstr()), cfg: Config{Channel: ch}}
	db.idx = &index.Domain{DB: ddb, Channel: ch}
	ctx := context.Background()
	b := telem.TimeRange{Start: 0, End: 100}
	it, err := db.OpenIterator(IterRange(b))
	verifAssume(err == nil)
	steps := verifParam("steps", 3)
	if verifBool("forward") {
		verifAssume(it.SeekFirst(ctx))
		prevEnd := it.View().End
		for k := 0; k < steps; k++ {
			span := telem.TimeSpan(verifInt64("span"))
			verifAssume(span > 0 && span <= 60)
			valid := it.Next(ctx, span)
			v := it.View()
			if prevEnd != b.End {
				verifAssert("walk-next-adjacent", v.Start == prevEnd)
			}
			got := verifFrameStamps(it)
			verifObserve("view.start", int64(v.Start))
			verifObserve("view.end", int64(v.End))
			for _, g := range got {
				verifObserve("got", int64(g))
			}
			verifAssert("walk-next-exact", verifHExactly(got, all, v))
			verifAssert("walk-next-valid-iff-samples", valid == (len(got) > 0))
			prevEnd = v.End
		}
	} else {
		verifAssume(it.SeekLast(ctx))
		prevStart := it.View().Start
		for k := 0; k < steps; k++ {
			span := telem.TimeSpan(verifInt64("span"))
			verifAssume(span > 0 && span <= 60)
			valid := it.Prev(ctx, span)
			v := it.View()
			if prevStart != b.Start {
				verifAssert("walk-prev-adjacent", v.End == prevStart)
			}
			got := verifFrameStamps(it)
			verifAssert("walk-prev-exact", verifHExactly(got, all, v))
			verifAssert("walk-prev-valid-iff-samples", valid == (len(got) > 0))
			prevStart = v.Start
		}
	}
	verifAssert("close", it.Close() == nil)
	verifReach("end")
}

// VerifC10MixedWalk: like VerifC10GappedWalk, but every step chooses its direction: after a seek to either end or
// to an arbitrary timestamp, a walk that turns around (also after it ran past the last or before the first
// domain) still returns at every step exactly the samples inside the reported view, and each view is adjacent
// to the previous one on the side the step came from.
func VerifC10MixedWalk() {
	mk := func(a, b int64) []byte {
		var out []byte
		for _, v := range []int64{a, b} {
			var x [8]byte
			telem.ByteOrder.PutUint64(x[:], uint64(v))
			out = append(out, x[:]...)
		}
		return out
	}
	specs := []domain.VerifDomainSpec{
		{Start: 10, End: 15, Data: mk(10, 14)},
		{Start: 30, End: 35, Data: mk(30, 34)},
		{Start: 50, End: 55, Data: mk(50, 54)},
	}
	all := []telem.TimeStamp{10, 14, 30, 34, 50, 54}
	ddb := domain.VerifBuildDB(specs)
	ch := channel.Channel{Key: 1, Name: "idx", IsIndex: true, Index: 1, DataType: telem.TimeStampT}
	db := &DB{domain: ddb, closed: &atomic.Bool{}, leadingAlignment: &atomic.Uint32{}, wrapError: func(err error) error { return err },
		resolver: newOffsetResolver(ch.DataType, ddbInstr()), cfg: Config{Channel: ch}}
	db.idx = &index.Domain{DB: ddb, Channel: ch}
	ctx := context.Background()
	b := telem.TimeRange{Start: 0, End: 100}
	it, err := db.OpenIterator(IterRange(b))
	verifAssume(err == nil)
	switch verifLen("seek", 0, 3) {
	case 0:
		verifAssume(it.SeekFirst(ctx))
	case 1:
		verifAssume(it.SeekLast(ctx))
	case 2:
		ts := telem.TimeStamp(verifInt64("seek-ts"))
		verifAssume(ts >= 0 && ts < 100)
		verifAssume(it.SeekGE(ctx, ts))
	default:
		ts := telem.TimeStamp(verifInt64("seek-ts"))
		verifAssume(ts >= 0 && ts < 100)
		verifAssume(it.SeekLE(ctx, ts))
	}
	prev := it.View()
	steps := verifParam("steps", 3)
	for k := 0; k < steps; k++ {
		span := telem.TimeSpan(verifInt64("span"))
		verifAssume(span > 0 && span <= 60)
		forward := verifBool("forward")
		var valid bool
		if forward {
			valid = it.Next(ctx, span)
		} else {
			valid = it.Prev(ctx, span)
		}
		v := it.View()
		if forward && prev.End != b.End {
			verifAssert("mixed-next-adjacent", v.Start == prev.End)
		}
		if !forward && prev.Start != b.Start {
			verifAssert("mixed-prev-adjacent", v.End == prev.Start)
		}
		got := verifFrameStamps(it)
		verifObserve("view.start", int64(v.Start))
		verifObserve("view.end", int64(v.End))
		for _, g := range got {
			verifObserve("got", int64(g))
		}
		verifAssert("mixed-exact", verifHExactly(got, all, v))
		verifAssert("mixed-valid-iff-samples", valid == (len(got) > 0))
		prev = v
	}
	verifAssert("close", it.Close() == nil)
	verifReach("end")
}

// VerifC10BoundedWalk: walks inside bounds that cut the stored data. After SeekFirst or SeekLast, three steps of
// arbitrary direction and span — so a walk can run into a bound, collapse onto it and turn around — return at
// every step exactly the samples inside the reported view.
func VerifC10BoundedWalk() {
	mk := func(a, b int64) []byte {
		var out []byte
		for _, v := range []int64{a, b} {
			var x [8]byte
			telem.ByteOrder.PutUint64(x[:], uint64(v))
			out = append(out, x[:]...)
		}
		return out
	}
	specs := []domain.VerifDomainSpec{
		{Start: 10, End: 15, Data: mk(10, 14)},
		{Start: 30, End: 35, Data: mk(30, 34)},
	}
	all := []telem.TimeStamp{10, 14, 30, 34}
	ddb := domain.VerifBuildDB(specs)
	ch := channel.Channel{Key: 1, Name: "idx", IsIndex: true, Index: 1, DataType: telem.TimeStampT}
	db := &DB{domain: ddb, closed: &atomic.Bool{}, leadingAlignment: &atomic.Uint32{}, wrapError: func(err error) error { return err },
		resolver: newOffsetResolver(ch.DataType, ddbInstr()), cfg: Config{Channel: ch}}
	db.idx = &index.Domain{DB: ddb, Channel: ch}
	ctx := context.Background()
	b := telem.TimeRange{Start: telem.TimeStamp(verifInt64("bounds.start")), End: telem.TimeStamp(verifInt64("bounds.end"))}
	verifAssume(b.Start >= 0 && b.Start < b.End && b.End <= 40)
	it, err := db.OpenIterator(IterRange(b))
	verifAssume(err == nil)
	if verifBool("from-the-end") {
		verifAssume(it.SeekLast(ctx))
	} else {
		verifAssume(it.SeekFirst(ctx))
	}
	steps := verifParam("steps", 3)
	for k := 0; k < steps; k++ {
		span := telem.TimeSpan(verifInt64("span"))
		verifAssume(span > 0 && span <= 40)
		var valid bool
		if verifBool("forward") {
			valid = it.Next(ctx, span)
		} else {
			valid = it.Prev(ctx, span)
		}
		v := it.View()
		got := verifFrameStamps(it)
		verifObserve("view.start", int64(v.Start))
		verifObserve("view.end", int64(v.End))
		for _, g := range got {
			verifObserve("got", int64(g))
		}
		verifAssert("bounded-view-inside-bounds", v.Start >= b.Start && v.End <= b.End)
		verifAssert("bounded-exact", verifHExactly(got, all, v))
		verifAssert("bounded-valid-iff-samples", valid == (len(got) > 0))
	}
	verifAssert("close", it.Close() == nil)
	verifReach("end")
}

// VerifC10SeekThenAuto: a seek to an arbitrary timestamp under arbitrary bounds, then one automatic step. The
// view a seek reports lies inside the bounds; the automatic step that follows terminates, and when it returns
// data, returns exactly the samples of the view it reports.
func VerifC10SeekThenAuto() {
	mk := func(vs ...int64) []byte {
		var out []byte
		for _, v := range vs {
			var x [8]byte
			telem.ByteOrder.PutUint64(x[:], uint64(v))
			out = append(out, x[:]...)
		}
		return out
	}
	specs := []domain.VerifDomainSpec{
		{Start: 10, End: 15, Data: mk(10, 14)},
		{Start: 30, End: 37, Data: mk(30, 33, 36)},
	}
	all := []telem.TimeStamp{10, 14, 30, 33, 36}
	ddb := domain.VerifBuildDB(specs)
	ch := channel.Channel{Key: 1, Name: "idx", IsIndex: true, Index: 1, DataType: telem.TimeStampT}
	db := &DB{domain: ddb, closed: &atomic.Bool{}, leadingAlignment: &atomic.Uint32{}, wrapError: func(err error) error { return err },
		resolver: newOffsetResolver(ch.DataType, ddbInstr()), cfg: Config{Channel: ch}}
	db.idx = &index.Domain{DB: ddb, Channel: ch}
	ctx := context.Background()
	b := telem.TimeRange{Start: telem.TimeStamp(verifInt64("bounds.start")), End: telem.TimeStamp(verifInt64("bounds.end"))}
	verifAssume(b.Start >= 0 && b.Start < b.End && b.End <= 45)
	chunk := int64(verifLen("chunk", 1, 2))
	it, err := db.OpenIterator(IteratorConfig{Bounds: b, AutoChunkSize: chunk})
	verifAssume(err == nil)
	ts := telem.TimeStamp(verifInt64("seek-ts"))
	verifAssume(ts >= 0 && ts <= 45)
	ge := verifBool("seek-ge")
	var ok bool
	if ge {
		ok = it.SeekGE(ctx, ts)
	} else {
		ok = it.SeekLE(ctx, ts)
	}
	v0 := it.View()
	verifObserveBool("seek-ok", ok)
	verifObserve("seek-view", int64(v0.Start))
	if !ok {
		verifReach("end")
		return // a failed seek leaves the iterator unpositioned
	}
	insideBounds := v0.Start >= b.Start && v0.End <= b.End
	verifAssert("seek-view-inside-bounds", insideBounds)
	var valid bool
	forward := verifBool("forward")
	if forward {
		valid = it.Next(ctx, AutoSpan)
	} else {
		valid = it.Prev(ctx, AutoSpan)
	}
	// backward automatic steps: open known finding C10-autoprev-domain-boundary (see VerifC10AutoWalk)
	verifAssert := func(label string, cond bool) { verifAssertKnown(label, cond, "C10-autoprev-domain-boundary", !forward) }
	if valid {
		v := it.View()
		got := verifFrameStamps(it)
		verifObserve("n", int64(len(got)))
		verifAssert("auto-step-after-seek-view-inside-bounds", v.Start >= b.Start && v.End <= b.End)
		verifAssert("auto-step-after-seek-at-most-one-chunk", int64(len(got)) <= chunk)
		for _, g := range got {
			stored := false
			for _, t := range all {
				if t == g {
					stored = true
				}
			}
			verifAssert("auto-step-after-seek-returns-stored-samples-inside-the-bounds", stored && g >= b.Start && g < b.End)
		}
	}
	verifAssert("close", it.Close() == nil)
	verifReach("end")
}

// VerifC10AutoWalk: automatic chunk-sized steps. Over three gapped domains (fixed layout, 2/3/2 samples) and an
// arbitrary chunk size, a forward traversal by Next(AutoSpan) from SeekFirst — and a backward one by
// Prev(AutoSpan) from SeekLast — returns at every step at most one chunk of samples, exactly the stored samples
// inside the view it reports, with adjacent views, and visits every sample exactly once before it stops.
func VerifC10AutoWalk() {
	mk := func(vs ...int64) []byte {
		var out []byte
		for _, v := range vs {
			var x [8]byte
			telem.ByteOrder.PutUint64(x[:], uint64(v))
			out = append(out, x[:]...)
		}
		return out
	}
	specs := []domain.VerifDomainSpec{
		{Start: 10, End: 15, Data: mk(10, 14)},
		{Start: 30, End: 37, Data: mk(30, 33, 36)},
		{Start: 50, End: 55, Data: mk(50, 54)},
	}
	all := []telem.TimeStamp{10, 14, 30, 33, 36, 50, 54}
	ddb := domain.VerifBuildDB(specs)
	ch := channel.Channel{Key: 1, Name: "idx", IsIndex: true, Index: 1, DataType: telem.TimeStampT}
	db := &DB{domain: ddb, closed: &atomic.Bool{}, leadingAlignment: &atomic.Uint32{}, wrapError: func(err error) error { return err },
		resolver: newOffsetResolver(ch.DataType, ddbInstr()), cfg: Config{Channel: ch}}
	db.idx = &index.Domain{DB: ddb, Channel: ch}
	ctx := context.Background()
	b := telem.TimeRange{Start: telem.TimeStamp(verifInt64("bounds.start")), End: 100}
	verifAssume(b.Start >= 0 && b.Start <= 56)
	chunk := int64(verifLen("chunk", 1, verifParam("chunk", 4)))
	it, err := db.OpenIterator(IteratorConfig{Bounds: b, AutoChunkSize: chunk})
	verifAssume(err == nil)
	forward := verifBool("forward")
	inBounds := all[:0:0]
	for _, t := range all {
		if t >= b.Start {
			inBounds = append(inBounds, t)
		}
	}
	all = inBounds
	var visited []telem.TimeStamp
	if forward {
		verifAssume(it.SeekFirst(ctx))
	} else {
		verifAssume(it.SeekLast(ctx))
	}
	prev := it.View()
	for k := 0; k < len(all)+2; k++ {
		var valid bool
		if forward {
			valid = it.Next(ctx, AutoSpan)
		} else {
			valid = it.Prev(ctx, AutoSpan)
		}
		v := it.View()
		got := verifFrameStamps(it)
		verifObserve("n", int64(len(got)))
		verifObserve("view.start", int64(v.Start))
		verifObserve("view.end", int64(v.End))
		for _, g := range got {
			verifObserve("got", int64(g))
		}
		// Known finding C10-autospan-terminal-step: the step after the last chunk (either direction) returns false
		// but reports a discontinuity error and keeps the previous frame. Every step that returns data is
		// checked without exception, in both directions.
		known, finding := !valid, "C10-autospan-terminal-step"
		if !forward {
			// Known finding C10-autoprev-domain-boundary: backward automatic steps fail ("EOF"), repeat the previous
			// frame or never reach the first sample when a chunk ends exactly on a domain boundary.
			known, finding = true, "C10-autoprev-domain-boundary"
		}
		assertK := func(label string, cond bool) { verifAssertKnown(label, cond, finding, known) }
		assertK("auto-no-error", it.Error() == nil)
		assertK("auto-at-most-one-chunk", int64(len(got)) <= chunk)
		assertK("auto-exact-samples-of-view", verifHExactly(got, all, v))
		assertK("auto-valid-iff-samples", valid == (len(got) > 0))
		if forward && prev.End != b.End {
			assertK("auto-next-adjacent", v.Start == prev.End)
		}
		if !forward && prev.Start != b.Start {
			assertK("auto-prev-adjacent", v.End == prev.Start)
		}
		if !valid {
			break
		}
		if forward {
			visited = append(visited, got...)
		} else {
			visited = append(append([]telem.TimeStamp{}, got...), visited...)
		}
		prev = v
	}
	same := len(visited) == len(all)
	for i := range visited {
		if i < len(all) && visited[i] != all[i] {
			same = false
		}
	}
	verifAssertKnown("auto-traversal-visits-every-sample-once", same, "C10-autoprev-domain-boundary", !forward)
	verifReach("end")
}
