//go:build verif_harness

package unary

import (
	"context"

	"github.com/synnaxlabs/x/telem"
)

func verifFrameStamps(it *Iterator) []telem.TimeStamp {
	var got []telem.TimeStamp
	for s := range it.Value().Series() {
		for i := 0; i+8 <= len(s.Data); i += 8 {
			got = append(got, telem.TimeStamp(telem.ByteOrder.Uint64(s.Data[i:i+8])))
		}
	}
	return got
}

func verifHExactly(got, all []telem.TimeStamp, view telem.TimeRange) bool {
	var want []telem.TimeStamp
	for _, t := range all {
		if t >= view.Start && t < view.End {
			want = append(want, t)
		}
	}
	if len(got) != len(want) {
		return false
	}
	for i := range got {
		if got[i] != want[i] {
			return false
		}
	}
	return true
}

// VerifC10UnarySteps: after SeekFirst, every Next(span) step with an arbitrary positive span returns exactly the
// stored samples inside the view it reports; consecutive views are adjacent, never leave the bounds, and the
// iterator is valid exactly when the view holds samples. Mirror image for SeekLast / Prev(span).
func VerifC10UnarySteps() {
	d := verifLen("domains", 1, verifParam("domains", 2))
	db, all, specs := verifIndexChannelDB(d, verifParam("samples", 2))
	ctx := context.Background()
	b := telem.TimeRange{Start: telem.TimeStamp(verifInt64("b.start")), End: telem.TimeStamp(verifInt64("b.end"))}
	verifAssume(b.Start >= 0 && b.Start < b.End)
	it, err := db.OpenIterator(IterRange(b))
	verifAssume(err == nil)
	forward := verifBool("forward")
	steps := verifParam("steps", 2)
	if forward {
		ok := it.SeekFirst(ctx)
		anyDomain := false
		for _, s := range specs {
			if s.Start < b.End && b.Start < s.End {
				anyDomain = true
			}
		}
		verifAssert("seekfirst-iff-domain-in-bounds", ok == anyDomain)
		if ok {
			prevEnd := it.View().End
			for k := 0; k < steps; k++ {
				span := telem.TimeSpan(verifInt64("span"))
				verifAssume(span > 0)
				atEnd := prevEnd == b.End
				valid := it.Next(ctx, span)
				v := it.View()
				verifAssert("next-view-inside-bounds", v.Start >= b.Start && v.End <= b.End && v.Start <= v.End)
				if !atEnd {
					verifAssert("next-views-adjacent", v.Start == prevEnd)
					wantEnd := prevEnd.Add(span)
					if wantEnd > b.End {
						wantEnd = b.End
					}
					verifAssert("next-view-end", v.End == wantEnd)
				}
				got := verifFrameStamps(it)
				verifAssert("next-exact-samples", verifHExactly(got, all, v))
				verifAssert("next-valid-iff-samples", valid == (len(got) > 0))
				prevEnd = v.End
			}
		}
	} else {
		ok := it.SeekLast(ctx)
		if ok {
			prevStart := it.View().Start
			for k := 0; k < steps; k++ {
				span := telem.TimeSpan(verifInt64("span"))
				verifAssume(span > 0)
				atStart := prevStart == b.Start
				valid := it.Prev(ctx, span)
				v := it.View()
				verifAssert("prev-view-inside-bounds", v.Start >= b.Start && v.End <= b.End && v.Start <= v.End)
				if !atStart {
					verifAssert("prev-views-adjacent", v.End == prevStart)
				}
				got := verifFrameStamps(it)
				verifAssert("prev-exact-samples", verifHExactly(got, all, v))
				verifAssert("prev-valid-iff-samples", valid == (len(got) > 0))
				prevStart = v.Start
			}
		}
	}
	verifAssert("close", it.Close() == nil)
	verifReach("end")
}
