//go:build verif_harness

package unary

import (
	"context"

	"github.com/synnaxlabs/x/telem"
)

// VerifC04UnaryDelete: deleting a time range from an index channel (real domain.DB.Delete driven by the real
// unary offset resolvers calculateStartOffset / calculateEndOffset) removes exactly the samples inside the range:
// a subsequent read of everything returns the other samples, each once, in order.
func VerifC04UnaryDelete() {
	d := verifLen("domains", 1, verifParam("domains", 2))
	db, all, _ := verifIndexChannelDBShaped(d, verifParam("samples", 2), verifParam("aligned", 0) == 1, verifParam("tightend", 1) == 1)
	ctx := context.Background()
	tr := telem.TimeRange{Start: telem.TimeStamp(verifInt64("del.start")), End: telem.TimeStamp(verifInt64("del.end"))}
	verifAssume(tr.Start >= 0 && tr.Start <= tr.End)
	err := db.domain.Delete(ctx, tr, db.calculateStartOffset, db.calculateEndOffset)
	db.resolver.invalidate()
	verifObserveBool("err", err != nil)
	verifAssert("delete-no-error", err == nil)
	fr, rerr := db.Read(ctx, telem.TimeRangeMax)
	verifAssert("read-after-delete-no-error", rerr == nil)
	var got []telem.TimeStamp
	for s := range fr.Series() {
		for i := 0; i+8 <= len(s.Data); i += 8 {
			got = append(got, telem.TimeStamp(telem.ByteOrder.Uint64(s.Data[i:i+8])))
		}
	}
	var want []telem.TimeStamp
	for _, t := range all {
		if !(t >= tr.Start && t < tr.End) {
			want = append(want, t)
		}
	}
	verifObserve("remaining", int64(len(got)))
	for _, t := range got {
		verifObserve("kept", int64(t))
	}
	ok := len(got) == len(want)
	if ok {
		for i := range got {
			if got[i] != want[i] {
				ok = false
			}
		}
	}
	verifAssert("delete-removes-exactly-the-range", ok)
	verifReach("end")
}
