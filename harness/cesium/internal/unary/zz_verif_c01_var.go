//go:build verif_harness

package unary

import (
	"context"

	"github.com/synnaxlabs/alamos"
	"github.com/synnaxlabs/cesium/internal/domain"
	"github.com/synnaxlabs/x/telem"
)

// VerifC01OffsetTable: the offset table built by scanning a variable-length domain lists exactly the start
// position of every stored record (including empty records and a final empty record) and counts them.
func VerifC01OffsetTable() {
	n := verifLen("records", 1, verifParam("records", 3))
	var data []byte
	var starts []uint32
	for i := 0; i < n; i++ {
		l := verifLen("len", 0, verifParam("maxlen", 2))
		starts = append(starts, uint32(len(data)))
		var pre [4]byte
		telem.ByteOrder.PutUint32(pre[:], uint32(l))
		data = append(data, pre[:]...)
		data = append(data, verifBytes("payload", l)...)
	}
	tr := telem.TimeRange{Start: 10, End: 20}
	db := domain.VerifBuildDB([]domain.VerifDomainSpec{{Start: tr.Start, End: tr.End, Data: data}})
	ctx := context.Background()
	it := db.OpenIterator(domain.IterRange(telem.TimeRangeMax))
	verifAssume(it.SeekFirst(ctx))
	r, err := it.OpenReader(ctx)
	verifAssume(err == nil)
	tbl, terr := buildOffsetTable(alamos.Instrumentation{}, r, telem.Size(len(data)), tr)
	verifAssert("table-no-error", terr == nil && tbl != nil)
	verifObserve("count", tbl.sampleCount)
	verifAssert("table-count", tbl.sampleCount == int64(n) && len(tbl.offsets) == n)
	ok := len(tbl.offsets) == n
	if ok {
		for i := range starts {
			if tbl.offsets[i] != starts[i] {
				ok = false
			}
		}
	}
	verifAssert("table-offsets-are-record-starts", ok)
	_ = r.Close()
	_ = it.Close()
	verifReach("end")
}
