//go:build verif_harness

package index

import (
	"context"

	"github.com/synnaxlabs/cesium/internal/domain"
	"github.com/synnaxlabs/x/telem"
)

// VerifStamps draws n strictly increasing non-negative timestamps and returns them with their encoding.
func VerifStamps(label string, n int, after telem.TimeStamp) ([]telem.TimeStamp, []byte) {
	ts := make([]telem.TimeStamp, n)
	var data []byte
	prev := after
	for i := 0; i < n; i++ {
		ts[i] = telem.TimeStamp(verifInt64(label))
		verifAssume(ts[i] > prev)
		prev = ts[i]
		var b [8]byte
		telem.ByteOrder.PutUint64(b[:], uint64(ts[i]))
		data = append(data, b[:]...)
	}
	return ts, data
}

// VerifC01Search: binary search over the stored timestamps of one domain resolves a timestamp to its exact sample
// index, or to the pair of neighbouring indices.
func VerifC01Search() {
	n := verifLen("n", 1, verifParam("n", 4))
	ts, data := VerifStamps("t", n, -1)
	end := telem.TimeStamp(verifInt64("end"))
	verifAssume(end > ts[n-1])
	db := domain.VerifBuildDB([]domain.VerifDomainSpec{{Start: ts[0], End: end, Data: data}})
	idx := &Domain{DB: db}
	ctx := context.Background()
	it := db.OpenIterator(domain.IterRange(telem.TimeRangeMax))
	verifAssume(it.SeekFirst(ctx))
	r, err := it.OpenReader(ctx)
	verifAssume(err == nil)
	q := telem.TimeStamp(verifInt64("q"))
	verifAssume(q >= 0)
	got, serr := idx.search(q, r)
	verifAssert("search-no-error", serr == nil)
	exact, below := -1, 0
	for i, t := range ts {
		if t == q {
			exact = i
		}
		if t < q {
			below++
		}
	}
	verifObserve("lower", got.Lower)
	verifObserve("upper", got.Upper)
	if exact >= 0 {
		verifAssert("search-exact", got.Lower == int64(exact) && got.Upper == int64(exact))
	} else {
		verifAssert("search-between", got.Lower == int64(below-1) && got.Upper == int64(below))
	}
	_ = r.Close()
	_ = it.Close()
	verifReach("end")
}
