//go:build verif_harness

package control

import (
	"github.com/synnaxlabs/cesium/internal/channel"
	"github.com/synnaxlabs/x/control"
	"github.com/synnaxlabs/x/errors"
	"github.com/synnaxlabs/x/set"
	"github.com/synnaxlabs/x/telem"
	"github.com/synnaxlabs/x/validate"
)

//verif:guard control.region curr RWMutex
//verif:guard control.region gates RWMutex
// region.timeRange is deliberately not in the guard table: it is written only inside Controller.OpenGate (under
// Controller.mu held for writing, plus the region lock) and read under Controller.mu, i.e. it is guarded by the
// controller's lock, which lives in another object than the guard directive can name.
//verif:guard control.region counter RWMutex
//verif:guard control.Controller regions mu

type verifRes struct{ k channel.Key }

func (r verifRes) ChannelKey() channel.Key { return r.k }

type (
	vRegion = region[verifRes]
	vGate   = Gate[verifRes]
)

// verifHBetter: a should lead over b under (authority desc, position asc).
func verifHBetter(a, b *vGate) bool {
	return a.authority > b.authority || (a.authority == b.authority && a.position < b.position)
}

func verifHBest(gs []*vGate, skip *vGate) *vGate {
	var best *vGate
	for _, g := range gs {
		if g == skip {
			continue
		}
		if best == nil || verifHBetter(g, best) {
			best = g
		}
	}
	return best
}

// verifRegion builds a region with g gates satisfying invariant J of DESIGN 4.0.
func verifRegion(g int, conc control.Concurrency) (*vRegion, []*vGate) {
	c := &Controller[verifRes]{Config: Config{Concurrency: conc}}
	r := &vRegion{resource: verifRes{k: 7}, gates: make(set.Set[*vGate]), controller: c}
	c.regions = []*vRegion{r}
	gates := make([]*vGate, g)
	var prev uint
	for i := 0; i < g; i++ {
		pos := uint(verifUint8("pos"))
		if i > 0 {
			verifAssume(pos > prev)
		}
		prev = pos
		gt := &vGate{region: r, subject: control.Subject{Key: verifString("key", 1)}, authority: control.Authority(verifUint8("auth")), position: pos}
		for j := 0; j < i; j++ {
			verifAssume(gates[j].subject.Key != gt.subject.Key)
		}
		gates[i] = gt
		r.gates.Add(gt)
	}
	r.counter = uint(verifUint8("counter"))
	if g > 0 {
		verifAssume(r.counter > prev)
		ci := verifLen("curr", 0, g-1)
		r.curr = gates[ci]
		for j := 0; j < g; j++ {
			if j != ci {
				verifAssume(!verifHBetter(gates[j], gates[ci]))
			}
		}
	}
	r.timeRange = telem.TimeRange{Start: telem.TimeStamp(verifInt64("r.start")), End: telem.TimeStamp(verifInt64("r.end"))}
	verifAssume(r.timeRange.Start >= 0 && r.timeRange.Start <= r.timeRange.End)
	verifMapOrder(r.gates)
	return r, gates
}

func verifHInvRegion(r *vRegion, gates []*vGate) bool {
	if len(r.gates) != len(gates) {
		return false
	}
	for _, g := range gates {
		if !r.gates.Contains(g) {
			return false
		}
		if g.position >= r.counter {
			return false
		}
	}
	if len(gates) == 0 {
		return r.curr == nil
	}
	return r.curr == verifHBest(gates, nil)
}

func verifHStateIs(s *State, g *vGate, auth control.Authority) bool {
	return s != nil && s.Subject == g.subject && s.Resource == 7 && s.Authority == auth
}

func verifConc() control.Concurrency {
	if verifBool("shared") {
		return control.ConcurrencyShared
	}
	return control.ConcurrencyExclusive
}

// VerifC05Release: releasing any gate hands control to the best remaining gate and reports the transfer.
func VerifC05Release() {
	n := verifLen("g", 1, verifParam("g", 3))
	r, gates := verifRegion(n, verifConc())
	gi := verifLen("release", 0, n-1)
	g := gates[gi]
	wasCurr := r.curr == g
	prevAuth := g.authority
	_, t := r.release(g)
	rest := make([]*vGate, 0, n)
	for _, x := range gates {
		if x != g {
			rest = append(rest, x)
		}
	}
	verifAssert("release-inv", verifHInvRegion(r, rest))
	if !wasCurr {
		verifAssert("release-nonholder-no-transfer", t.From == nil && t.To == nil)
	} else {
		verifAssert("release-from-is-released", verifHStateIs(t.From, g, prevAuth))
		if len(rest) == 0 {
			verifAssert("release-last-to-nil", t.To == nil)
			verifAssert("release-last-region-removed", len(r.controller.regions) == 0)
		} else {
			nb := verifHBest(rest, nil)
			verifAssert("release-to-is-best", verifHStateIs(t.To, nb, nb.authority))
			verifAssert("release-region-kept", len(r.controller.regions) == 1)
		}
	}
	verifReach("end")
}

// VerifC05Update: changing any gate's authority re-elects the best gate and reports the transfer with the
// previous authority in From.
func VerifC05Update() {
	n := verifLen("g", 1, verifParam("g", 3))
	r, gates := verifRegion(n, verifConc())
	gi := verifLen("update", 0, n-1)
	g := gates[gi]
	old := r.curr
	oldAuth := old.authority
	prevAuth := g.authority
	na := control.Authority(verifUint8("newauth"))
	t := r.update(g, na)
	verifAssert("update-authority-set", g.authority == na)
	verifAssert("update-inv", verifHInvRegion(r, gates))
	if r.curr == old && (old != g || na == prevAuth) {
		if old == g {
			// holder unchanged and authority unchanged: no transfer
			verifAssert("update-noop-not-occurred", !t.Occurred())
		} else {
			verifAssert("update-nonholder-no-transfer", t.From == nil && t.To == nil)
		}
	} else {
		if old == g {
			verifAssert("update-from-prev-authority", verifHStateIs(t.From, old, prevAuth))
		} else {
			verifAssert("update-from-old-holder", verifHStateIs(t.From, old, oldAuth))
		}
		verifAssert("update-to-new-holder", verifHStateIs(t.To, r.curr, r.curr.authority))
	}
	verifReach("end")
}

// VerifC05Open: opening a gate on a region.
func VerifC05Open() {
	n := verifLen("g", 0, verifParam("g", 3))
	conc := verifConc()
	r, gates := verifRegion(n, conc)
	errIfControlled, errOnUnauth := verifBool("errIfControlled"), verifBool("errOnUnauth")
	cfg := GateConfig[verifRes]{
		ErrIfControlled:       &errIfControlled,
		ErrOnUnauthorizedOpen: &errOnUnauth,
		Subject:               control.Subject{Key: verifString("newkey", 1)},
		TimeRange:             telem.TimeRange{Start: telem.TimeStamp(verifInt64("o.start")), End: telem.TimeStamp(verifInt64("o.end"))},
		Authority:             control.Authority(verifUint8("newauth")),
	}
	verifAssume(cfg.TimeRange.Start >= 0 && cfg.TimeRange.Start <= cfg.TimeRange.End)
	old := r.curr
	oldCounter := r.counter
	oldTR := r.timeRange
	verifAssume(oldCounter < 255)
	g, t, err := r.open(cfg)
	dup := false
	for _, x := range gates {
		if x.subject.Key == cfg.Subject.Key {
			dup = true
		}
	}
	takes := old == nil || cfg.Authority > old.authority
	var wantErr bool
	switch {
	case errIfControlled && old != nil:
		wantErr = true
		verifAssert("open-controlled-unauthorized", err != nil && errors.Is(err, control.ErrUnauthorized))
	case dup:
		wantErr = true
		verifAssert("open-duplicate-validation", err != nil && errors.Is(err, validate.ErrValidation))
	case !takes && errOnUnauth && (conc != control.ConcurrencyShared || cfg.Authority != old.authority):
		wantErr = true
		verifAssert("open-unauthorized", err != nil && errors.Is(err, control.ErrUnauthorized))
	}
	verifObserveBool("err", err != nil)
	verifAssert("open-err-iff", (err != nil) == wantErr)
	if err != nil {
		verifAssert("open-fail-nil-gate", g == nil)
		verifAssert("open-fail-holder-unchanged", r.curr == old)
		verifAssert("open-fail-gates-unchanged", verifHInvRegion(r, gates))
		verifAssert("open-fail-counter-unchanged", r.counter == oldCounter)
		verifReach("end")
		return
	}
	all := append(append([]*vGate{}, gates...), g)
	verifAssert("open-inv", verifHInvRegion(r, all))
	verifAssert("open-position", g.position == oldCounter && r.counter == oldCounter+1)
	verifAssert("open-timerange-covers", r.timeRange.Start <= oldTR.Start && r.timeRange.End >= oldTR.End && r.timeRange.Start <= cfg.TimeRange.Start && r.timeRange.End >= cfg.TimeRange.End)
	if takes {
		verifAssert("open-takes-control", r.curr == g && verifHStateIs(t.To, g, cfg.Authority))
		if old != nil {
			verifAssert("open-transfer-from-old", verifHStateIs(t.From, old, old.authority))
		} else {
			verifAssert("open-acquire-from-nil", t.From == nil)
		}
	} else {
		verifAssert("open-no-transfer", r.curr == old && t.From == nil && t.To == nil)
	}
	verifReach("end")
}

// VerifC05Authorize: Authorize succeeds exactly for the gate(s) the concurrency mode admits.
func VerifC05Authorize() {
	n := verifLen("g", 1, verifParam("g", 3))
	conc := verifConc()
	r, gates := verifRegion(n, conc)
	gi := verifLen("gate", 0, n-1)
	g := gates[gi]
	_, err := g.Authorize()
	var want bool
	if conc == control.ConcurrencyExclusive {
		want = g == r.curr
	} else {
		want = g.authority >= r.curr.authority
	}
	verifAssert("authorize-iff", (err == nil) == want)
	if err != nil {
		verifAssert("authorize-err-kind", errors.Is(err, control.ErrUnauthorized))
	}
	// exclusive mode: exactly one gate is authorised
	if conc == control.ConcurrencyExclusive {
		cnt := 0
		for _, x := range gates {
			if _, e := x.Authorize(); e == nil {
				cnt++
			}
		}
		verifAssert("authorize-exactly-one", cnt == 1)
	}
	verifReach("end")
}

// VerifC05OpenGate: the controller routes a new gate to the unique region its time range overlaps, refuses a
// range that overlaps two regions, and otherwise creates a new region at its sorted position (calling
// OpenResource exactly then); regions stay sorted by start and pairwise non-overlapping.
func VerifC05OpenGate() {
	nr := verifLen("regions", 0, verifParam("regions", 2))
	c := &Controller[verifRes]{Config: Config{Concurrency: verifConc()}}
	var prevEnd telem.TimeStamp = -1
	for i := 0; i < nr; i++ {
		tr := telem.TimeRange{Start: telem.TimeStamp(verifInt64("r.start")), End: telem.TimeStamp(verifInt64("r.end"))}
		verifAssume(tr.Start >= 0 && tr.Start > prevEnd && tr.Start < tr.End)
		prevEnd = tr.End
		r := &vRegion{resource: verifRes{k: channel.Key(i + 1)}, gates: make(set.Set[*vGate]), controller: c, timeRange: tr}
		g := &vGate{region: r, subject: control.Subject{Key: "existing"}, authority: control.Authority(verifUint8("auth")), position: 0}
		r.gates.Add(g)
		r.curr = g
		r.counter = 1
		c.regions = append(c.regions, r)
	}
	before := make([]*vRegion, len(c.regions))
	copy(before, c.regions)
	tr := telem.TimeRange{Start: telem.TimeStamp(verifInt64("g.start")), End: telem.TimeStamp(verifInt64("g.end"))}
	verifAssume(tr.Start >= 0 && tr.Start < tr.End)
	opened := 0
	no := false
	errOnUnauth := verifBool("err-on-unauthorized-open")
	type snap struct {
		tr      telem.TimeRange
		curr    *vGate
		ngates  int
		counter uint
	}
	var snaps []snap
	for _, r := range before {
		snaps = append(snaps, snap{r.timeRange, r.curr, len(r.gates), uint(r.counter)})
	}
	cfg := GateConfig[verifRes]{
		OpenResource:          func() (verifRes, error) { opened++; return verifRes{k: 99}, nil },
		ErrIfControlled:       &no,
		ErrOnUnauthorizedOpen: &errOnUnauth,
		Subject:               control.Subject{Key: "new"},
		TimeRange:             tr,
		Authority:             control.Authority(verifUint8("newauth")),
	}
	var overlapping []int
	for i, r := range before {
		if refOverlapCtl(r.timeRange, tr) {
			overlapping = append(overlapping, i)
		}
	}
	g, _, err := c.OpenGate(cfg)
	verifObserveBool("err", err != nil)
	switch len(overlapping) {
	case 0:
		verifAssert("opengate-new-region-ok", err == nil && g != nil && opened == 1 && len(c.regions) == nr+1)
		if err == nil && g != nil {
			verifAssert("opengate-new-region-holds-gate", g.region.curr == g && g.region.timeRange == tr && g.region.resource.k == 99)
		}
	case 1:
		reg := before[overlapping[0]]
		// with ErrOnUnauthorizedOpen the open is refused unless the new gate takes control (or, on shared
		// channels, ties with the holder)
		takes := cfg.Authority > snaps[overlapping[0]].curr.authority
		ties := c.Concurrency == control.ConcurrencyShared && cfg.Authority == snaps[overlapping[0]].curr.authority
		if errOnUnauth && !takes && !ties {
			verifAssert("opengate-unauthorized-open-refused", err != nil && g == nil)
			sn := snaps[overlapping[0]]
			verifAssert("refused-open-has-no-effect", reg.timeRange == sn.tr && reg.curr == sn.curr && len(reg.gates) == sn.ngates)
			break
		}
		verifAssert("opengate-joins-existing", err == nil && g != nil && opened == 0 && len(c.regions) == nr)
		if err == nil && g != nil {
			verifAssert("opengate-joined-the-overlapping-region", g.region == before[overlapping[0]] && g.region.gates.Contains(g))
		}
	default:
		verifAssert("opengate-two-regions-refused", err != nil && opened == 0)
		unchanged := len(c.regions) == nr
		for i, r := range before {
			if r.timeRange != snaps[i].tr || r.curr != snaps[i].curr || len(r.gates) != snaps[i].ngates {
				unchanged = false
			}
		}
		verifAssert("refused-open-has-no-effect", unchanged)
	}
	for i := 1; i < len(c.regions); i++ {
		verifAssert("regions-sorted-by-start", c.regions[i-1].timeRange.Start <= c.regions[i].timeRange.Start)
	}
	if len(overlapping) <= 1 {
		for i := 1; i < len(c.regions); i++ {
			verifAssert("regions-stay-disjoint-when-not-merging", len(overlapping) == 1 || !refOverlapCtl(c.regions[i-1].timeRange, c.regions[i].timeRange))
		}
	}
	verifReach("end")
}

func refOverlapCtl(a, b telem.TimeRange) bool {
	if a == b || a.Start == b.Start {
		return true
	}
	return a.Start < b.End && b.Start < a.End
}
