//go:build verif_harness

package domain

import (
	"context"

	"github.com/synnaxlabs/x/telem"
)

// VerifC10DomainIterator: over an arbitrary invariant-satisfying index and arbitrary bounds, a forward traversal
// (SeekFirst, Next...) and a backward traversal (SeekLast, Prev...) visit exactly the domains overlapping the
// bounds, in order, without skipping or repeating; the iterator is valid exactly on those domains.
func VerifC10DomainIterator() {
	n := verifLen("n", 0, verifParam("n", 3))
	idx := verifIndex(n)
	db, _ := verifDB(idx)
	ptrs := idx.mu.pointers
	ctx := context.Background()
	b := telem.TimeRange{Start: telem.TimeStamp(verifInt64("b.start")), End: telem.TimeStamp(verifInt64("b.end"))}
	verifAssume(b.Start >= 0 && b.Start < b.End)
	lo, hi := -1, -1
	for i := range ptrs {
		if refOverlapTR(ptrs[i].TimeRange, b) {
			if lo < 0 {
				lo = i
			}
			hi = i
		}
	}
	it := db.OpenIterator(IterRange(b))
	// forward
	ok := it.SeekFirst(ctx)
	verifAssert("seekfirst-valid-iff-any", ok == (lo >= 0) && it.Valid() == ok)
	if ok {
		verifAssert("seekfirst-position", int(it.Position()) == lo && it.TimeRange() == ptrs[lo].TimeRange)
		for want := lo + 1; want <= hi; want++ {
			verifAssert("next-advances", it.Next() && int(it.Position()) == want && it.TimeRange() == ptrs[want].TimeRange)
		}
		verifAssert("next-stops-at-end", !it.Next() && !it.Valid())
	}
	// backward
	ok = it.SeekLast(ctx)
	verifAssert("seeklast-valid-iff-any", ok == (hi >= 0))
	if ok {
		verifAssert("seeklast-position", int(it.Position()) == hi && it.TimeRange() == ptrs[hi].TimeRange)
		for want := hi - 1; want >= lo; want-- {
			verifAssert("prev-retreats", it.Prev() && int(it.Position()) == want && it.TimeRange() == ptrs[want].TimeRange)
		}
		verifAssert("prev-stops-at-start", !it.Prev() && !it.Valid())
	}
	// seeks to an arbitrary stamp land on the documented domain
	ts := telem.TimeStamp(verifInt64("ts"))
	verifAssume(ts >= 0)
	contain, lastLE, firstGT := -1, -1, -1
	for i := range ptrs {
		if ptrs[i].Start <= ts && ts < ptrs[i].End {
			contain = i
		}
		if ptrs[i].Start <= ts {
			lastLE = i
		}
		if firstGT < 0 && ptrs[i].Start > ts {
			firstGT = i
		}
	}
	wantGE, wantLE := firstGT, lastLE
	if contain >= 0 {
		wantGE, wantLE = contain, contain
	}
	okGE := it.SeekGE(ctx, ts)
	verifAssert("seekge", okGE == (wantGE >= 0 && refOverlapTR(ptrs[max(wantGE, 0)].TimeRange, b)) && (!okGE || int(it.Position()) == wantGE))
	okLE := it.SeekLE(ctx, ts)
	verifAssert("seekle", okLE == (wantLE >= 0 && refOverlapTR(ptrs[max(wantLE, 0)].TimeRange, b)) && (!okLE || int(it.Position()) == wantLE))
	verifAssert("close", it.Close() == nil && !it.Valid())
	verifReach("end")
}

// VerifC04HasDataFor: the dependants guard used by index-channel deletes answers "some domain overlaps tr".
func VerifC04HasDataFor() {
	n := verifLen("n", 0, verifParam("n", 3))
	idx := verifIndex(n)
	db, _ := verifDB(idx)
	tr := telem.TimeRange{Start: telem.TimeStamp(verifInt64("tr.start")), End: telem.TimeStamp(verifInt64("tr.end"))}
	verifAssume(tr.Start >= 0 && tr.Start < tr.End)
	want := false
	for _, p := range idx.mu.pointers {
		if refOverlapTR(p.TimeRange, tr) {
			want = true
		}
	}
	got, err := db.HasDataFor(context.Background(), tr)
	verifObserveBool("has", got)
	verifAssert("hasdatafor-iff-overlap", err == nil && got == want)
	verifAssert("hasdatafor-releases-iterator", db.resourceCount.Load() == 0)
	verifReach("end")
}
