//go:build verif_harness

package domain

import (
	"context"
	"io"
	"sync/atomic"

	xfs "github.com/synnaxlabs/x/io/fs"
	"github.com/synnaxlabs/x/telem"
)

//verif:redirect (*github.com/synnaxlabs/cesium/internal/domain.DB).newReader github.com/synnaxlabs/cesium/internal/domain.verifNewReader
//verif:assume under the engine, domain readers are served from in-memory byte arrays (file controller and OS files not encoded); native replay builds the same domains on a real DB over an in-memory file system

// VerifDomainSpec describes one stored domain: its time range and its bytes.
type VerifDomainSpec struct {
	Start, End telem.TimeStamp
	Data       []byte
}

var verifReaderData = map[*DB]map[uint16][]byte{}

type verifDataReader struct{ data []byte }

func (r *verifDataReader) ReadAt(p []byte, off int64) (int, error) {
	if off < 0 || int(off) > len(r.data) {
		return 0, io.EOF
	}
	n := copy(p, r.data[off:])
	if n < len(p) {
		return n, io.EOF
	}
	return n, nil
}

func (r *verifDataReader) Close() error { return nil }

func verifNewReader(db *DB, _ context.Context, ptr pointer) (*Reader, error) {
	file := verifReaderData[db][ptr.fileKey]
	lo, hi := int(ptr.offset), int(ptr.offset)+int(ptr.size)
	if lo > len(file) {
		lo = len(file)
	}
	if hi > len(file) {
		hi = len(file)
	}
	return &Reader{ptr: ptr, ReaderAtCloser: &verifDataReader{data: file[lo:hi]}}, nil
}

// VerifBuildDB builds a DB holding exactly the given domains (sorted, disjoint, non-empty data). Under the engine
// it is an index plus in-memory readers; natively it is a real DB on an in-memory file system filled through real
// writers.
func VerifBuildDB(specs []VerifDomainSpec) *DB { return VerifBuildDBInOrder(specs, nil) }

// VerifBuildDBInOrder writes the domains in the given order (a permutation of 0..len(specs)-1; nil = as listed).
// Under the engine every domain goes through the real index.insert, so out-of-order histories exercise the
// index's search and insertion code; natively the writers are opened in that order.
func VerifBuildDBInOrder(specs []VerifDomainSpec, order []int) *DB {
	if order == nil {
		for i := range specs {
			order = append(order, i)
		}
	}
	ctx := context.Background()
	if verifSymbolic() {
		idx := &index{totalSize: &atomic.Int64{}}
		db, _ := verifDB(idx)
		verifReaderData[db] = map[uint16][]byte{}
		for _, i := range order {
			s := specs[i]
			fk := uint16(i + 1)
			verifReaderData[db][fk] = s.Data
			if err := idx.insert(ctx, pointer{TimeRange: telem.TimeRange{Start: s.Start, End: s.End}, fileKey: fk, size: uint32(len(s.Data))}, false); err != nil {
				panic(err)
			}
		}
		return db
	}
	db, err := Open(Config{FS: xfs.NewMem()})
	if err != nil {
		panic(err)
	}
	no := false
	for _, i := range order {
		s := specs[i]
		w, err := db.OpenWriter(ctx, WriterConfig{Start: s.Start, EnableAutoCommit: &no})
		if err != nil {
			panic(err)
		}
		if _, err = w.Write(s.Data); err != nil {
			panic(err)
		}
		if err = w.Commit(ctx, s.End); err != nil {
			panic(err)
		}
		if err = w.Close(); err != nil {
			panic(err)
		}
	}
	return db
}
