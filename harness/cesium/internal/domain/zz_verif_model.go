//go:build verif_harness

package domain

//verif:serial (*github.com/synnaxlabs/cesium/internal/domain.DB).Close

import (
	xfs "github.com/synnaxlabs/x/io/fs"
	"github.com/synnaxlabs/x/telem"
)

//verif:assume domains are stored in a real domain.DB over the real in-memory file system x/io/fs.MemFS (interpreted by the engine like any other code); OS files are not involved

// VerifDomainSpec describes one stored domain: its time range and its bytes.
type VerifDomainSpec struct {
	Start, End telem.TimeStamp
	Data       []byte
}

// VerifBuildDB builds a DB holding exactly the given domains (non-empty data) on a fresh in-memory file system.
func VerifBuildDB(specs []VerifDomainSpec) *DB { return VerifBuildRealDB(xfs.NewMem(), specs, nil) }

// VerifBuildDBInOrder writes the domains in the given order (a permutation of 0..len(specs)-1; nil = as listed)
// through real writers: out-of-order histories exercise the index's search and insertion code.
func VerifBuildDBInOrder(specs []VerifDomainSpec, order []int) *DB {
	return VerifBuildRealDB(xfs.NewMem(), specs, order)
}

// VerifReopen closes db and opens a new DB on the same file system.
func VerifReopen(db *DB, fs xfs.FS) *DB {
	if err := db.Close(); err != nil {
		panic(err)
	}
	ndb, err := Open(Config{FS: fs})
	if err != nil {
		panic(err)
	}
	return ndb
}
