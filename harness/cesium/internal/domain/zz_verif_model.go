//go:build verif_harness

package domain

import (
	"context"
	"io"
	"sync/atomic"

	xfs "github.com/synnaxlabs/x/io/fs"
	"github.com/synnaxlabs/x/telem"
)

//verif:redirect (*github.com/synnaxlabs/cesium/internal/domain.DB).newReader github.com/synnaxlabs/cesium/internal/domain.verifNewReader
//verif:assume under the engine, domain readers are served from in-memory byte arrays (file controller and OS files not encoded); native replay builds the same domains on a real DB over an in-memory file system

// VerifDomainSpec describes one stored domain: its time range and its bytes.
type VerifDomainSpec struct {
	Start, End telem.TimeStamp
	Data       []byte
}

var verifReaderData map[uint16][]byte

type verifDataReader struct{ data []byte }

func (r *verifDataReader) ReadAt(p []byte, off int64) (int, error) {
	if off < 0 || int(off) > len(r.data) {
		return 0, io.EOF
	}
	n := copy(p, r.data[off:])
	if n < len(p) {
		return n, io.EOF
	}
	return n, nil
}

func (r *verifDataReader) Close() error { return nil }

func verifNewReader(db *DB, _ context.Context, ptr pointer) (*Reader, error) {
	file := verifReaderData[ptr.fileKey]
	lo, hi := int(ptr.offset), int(ptr.offset)+int(ptr.size)
	if lo > len(file) {
		lo = len(file)
	}
	if hi > len(file) {
		hi = len(file)
	}
	return &Reader{ptr: ptr, ReaderAtCloser: &verifDataReader{data: file[lo:hi]}}, nil
}

// VerifBuildDB builds a DB holding exactly the given domains (sorted, disjoint, non-empty data). Under the engine
// it is an index plus in-memory readers; natively it is a real DB on an in-memory file system filled through real
// writers.
func VerifBuildDB(specs []VerifDomainSpec) *DB {
	if verifSymbolic() {
		idx := &index{totalSize: &atomic.Int64{}}
		verifReaderData = map[uint16][]byte{}
		for i, s := range specs {
			fk := uint16(i + 1)
			idx.mu.pointers = append(idx.mu.pointers, pointer{TimeRange: telem.TimeRange{Start: s.Start, End: s.End}, fileKey: fk, size: uint32(len(s.Data))})
			verifReaderData[fk] = s.Data
			idx.totalSize.Add(int64(len(s.Data)))
		}
		db, _ := verifDB(idx)
		return db
	}
	db, err := Open(Config{FS: xfs.NewMem()})
	if err != nil {
		panic(err)
	}
	no := false
	ctx := context.Background()
	for _, s := range specs {
		w, err := db.OpenWriter(ctx, WriterConfig{Start: s.Start, EnableAutoCommit: &no})
		if err != nil {
			panic(err)
		}
		if _, err = w.Write(s.Data); err != nil {
			panic(err)
		}
		if err = w.Commit(ctx, s.End); err != nil {
			panic(err)
		}
		if err = w.Close(); err != nil {
			panic(err)
		}
	}
	return db
}
