//go:build verif_harness

package domain

import (
	"context"

	xfs "github.com/synnaxlabs/x/io/fs"
	"github.com/synnaxlabs/x/telem"
)

// VerifC09PersistOrder: two commits by different goroutines. index.insert (like index.update and Writer.Close)
// snapshots the encoded pointers under the index lock, releases the lock and only then runs the flush closure,
// which takes the index file's own mutex. Nothing ties the order in which the closures run to the order in which
// their snapshots were taken. The harness plays the two goroutines between "snapshot taken" and "flush run":
// both inserts are applied through the real index.insert, each followed by the same prepare call insert makes
// under the lock, and the two real flush closures are then run in either order. Both commits reported success,
// so after close and reopen the index holds both domains.
func VerifC09PersistOrder() {
	mem := xfs.NewMem()
	db, err := Open(Config{FS: mem})
	if err != nil {
		panic(err)
	}
	ctx := context.Background()
	idx := db.idx
	commit := func(p pointer) func() error {
		// index.insert up to the point where it releases the index lock ...
		if err := idx.insert(ctx, p, false); err != nil {
			panic(err)
		}
		idx.mu.Lock()
		flush := idx.indexPersist.prepare(idx.persistHead)
		idx.mu.Unlock()
		// ... the flush closure runs after the lock is released
		return flush
	}
	sa, sb := telem.TimeStamp(verifInt64("a.start")), telem.TimeStamp(verifInt64("b.start"))
	verifAssume(sa >= 0 && sa <= 100 && sb >= 0 && sb <= 100 && (sa+10 <= sb || sb+10 <= sa))
	a := pointer{TimeRange: telem.TimeRange{Start: sa, End: sa + 10}, fileKey: 1, offset: 0, size: 3}
	b := pointer{TimeRange: telem.TimeRange{Start: sb, End: sb + 10}, fileKey: 1, offset: 3, size: 2}
	flushA := commit(a)
	flushB := commit(b)
	stale := verifBool("older-snapshot-flushed-last")
	if stale {
		verifAssert("flush-b-ok", flushB() == nil)
		verifAssert("flush-a-ok", flushA() == nil)
	} else {
		verifAssert("flush-a-ok", flushA() == nil)
		verifAssert("flush-b-ok", flushB() == nil)
	}
	ndb := VerifReopen(db, mem)
	ptrs := ndb.idx.mu.pointers
	hasA, hasB := false, false
	for _, p := range ptrs {
		if p == a {
			hasA = true
		}
		if p == b {
			hasB = true
		}
	}
	verifObserve("reloaded", int64(len(ptrs)))
	verifAssertKnown("both-successful-commits-survive-reopen", hasA && hasB && len(ptrs) == 2, "C09-index-flush-order", stale)
	verifAssert("reloaded-index-invariant", verifHInvIndex(ptrs))
	verifReach("end")
}
