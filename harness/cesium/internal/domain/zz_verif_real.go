//go:build verif_harness

package domain

import (
	"context"

	xfs "github.com/synnaxlabs/x/io/fs"
)

// VerifBuildRealDB builds a real DB over the real in-memory file system (no redirects): under the engine the
// file controller, readers and writers are interpreted like everything else.
func VerifBuildRealDB(fs xfs.FS, specs []VerifDomainSpec, order []int) *DB {
	return verifBuildRealDBCfg(Config{FS: fs}, specs, order)
}

func verifBuildRealDBCfg(cfg Config, specs []VerifDomainSpec, order []int) *DB {
	if order == nil {
		for i := range specs {
			order = append(order, i)
		}
	}
	db, err := Open(cfg)
	if err != nil {
		panic(err)
	}
	no := false
	ctx := context.Background()
	for _, i := range order {
		s := specs[i]
		w, err := db.OpenWriter(ctx, WriterConfig{Start: s.Start, EnableAutoCommit: &no})
		if err != nil {
			panic(err)
		}
		if _, err = w.Write(s.Data); err != nil {
			panic(err)
		}
		if err = w.Commit(ctx, s.End); err != nil {
			panic(err)
		}
		if err = w.Close(); err != nil {
			panic(err)
		}
	}
	return db
}

