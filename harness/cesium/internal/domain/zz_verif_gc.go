//go:build verif_harness

package domain

import (
	"context"

	"github.com/synnaxlabs/x/errors"

	xfs "github.com/synnaxlabs/x/io/fs"
	"github.com/synnaxlabs/x/telem"
)

// verifContent is what a full scan of the DB returns: every stored domain with its bytes, in order.
type verifContent struct {
	tr   telem.TimeRange
	data []byte
}

// verifScan reads the whole DB through the public iterator/reader API and closes everything it opened.
func verifScan(db *DB) (out []verifContent, ok bool) {
	ctx := context.Background()
	it := db.OpenIterator(IterRange(telem.TimeRangeMax))
	ok = true
	for more := it.SeekFirst(ctx); more; more = it.Next() {
		r, err := it.OpenReader(ctx)
		if err != nil {
			ok = false
			break
		}
		buf := make([]byte, it.Size())
		if len(buf) > 0 {
			if _, err = r.ReadAt(buf, 0); err != nil {
				ok = false
			}
		}
		if err = r.Close(); err != nil {
			ok = false
		}
		out = append(out, verifContent{tr: it.TimeRange(), data: buf})
	}
	if it.Close() != nil {
		ok = false
	}
	return out, ok
}

func verifSameContent(a, b []verifContent) bool {
	if len(a) != len(b) {
		return false
	}
	same := true
	for i := range a {
		if a[i].tr != b[i].tr || len(a[i].data) != len(b[i].data) {
			return false
		}
		for j := range a[i].data {
			if a[i].data[j] != b[i].data[j] {
				same = false
			}
		}
	}
	return same
}

// VerifC04GC: garbage collection is invisible. A real DB over the in-memory file system receives up to n
// domains (sizes 1..size bytes, arbitrary write order, several per file), then up to `dels` deletes with
// arbitrary ranges and arbitrary contract-respecting offsets; GarbageCollect must leave a full scan unchanged
// (before reopening and after), must not leave pointers overlapping inside a file, and must leave each file
// it compacted exactly as large as the pointers that remain in it.
func VerifC04GC() {
	n := verifLen("n", 1, verifParam("n", 3))
	maxSize := verifParam("size", 2)
	specs := make([]VerifDomainSpec, n)
	for i := range specs {
		sz := verifLen("size", 1, maxSize)
		d := make([]byte, sz)
		for j := range d {
			d[j] = byte(16*(i+1) + j)
		}
		specs[i] = VerifDomainSpec{Start: telem.TimeStamp(100 * (i + 1)), End: telem.TimeStamp(100*(i+1) + 10*sz), Data: d}
	}
	order := make([]int, 0, n)
	for i := 0; i < n; i++ {
		pos := i
		if i > 0 {
			pos = verifLen("write-order", 0, i)
		}
		order = append(order, 0)
		copy(order[pos+1:], order[pos:])
		order[pos] = i
	}
	fs := xfs.NewMem()
	// FileSize 5 (effective 4): a file takes new writers while it is smaller than 4 bytes, so files hold
	// several domains; GCThreshold 0.25 of 4 = one tombstone byte triggers compaction.
	db := verifBuildRealDBCfg(Config{FS: fs, FileSize: 5, GCThreshold: 0.25}, specs, order)
	ctx := context.Background()

	dels := verifLen("deletes", 1, verifParam("dels", 1))
	for k := 0; k < dels; k++ {
		tr := telem.TimeRange{Start: telem.TimeStamp(verifInt64("tr.start")), End: telem.TimeStamp(verifInt64("tr.end"))}
		verifAssume(tr.Start >= 0 && tr.Start <= tr.End && tr.End <= 1000)
		var sdStart telem.TimeStamp = -1
		var soKept telem.Size
		startRes := func(_ context.Context, domainStart telem.TimeStamp, ts telem.TimeStamp) (telem.Size, telem.TimeStamp, error) {
			p, found := verifPtrStarting(db, domainStart)
			verifAssume(found)
			so := telem.Size(verifUint32("so"))
			verifAssume(so <= telem.Size(p.size))
			if so > 0 {
				verifAssume(ts > p.Start)
			}
			sdStart, soKept = domainStart, so
			return so, ts, nil
		}
		endRes := func(_ context.Context, domainStart telem.TimeStamp, ts telem.TimeStamp) (telem.Size, telem.TimeStamp, error) {
			p, found := verifPtrStarting(db, domainStart)
			verifAssume(found)
			eo := telem.Size(verifUint32("eo"))
			verifAssume(eo <= telem.Size(p.size))
			if domainStart == sdStart {
				verifAssume(soKept <= eo)
			}
			return eo, ts, nil
		}
		verifAssert("gc-setup-delete-ok", db.Delete(ctx, tr, startRes, endRes) == nil)
	}

	before, ok := verifScan(db)
	verifAssert("gc-scan-before-ok", ok)
	var ptrsBefore int64
	for range db.idx.mu.pointers {
		ptrsBefore++
	}
	verifObserve("pointers", ptrsBefore)

	offsBefore := make([]uint32, len(db.idx.mu.pointers))
	for i, p := range db.idx.mu.pointers {
		offsBefore[i] = p.offset
	}

	err := db.GarbageCollect(ctx)
	verifAssert("gc-no-error", err == nil)

	after, ok := verifScan(db)
	verifAssert("gc-scan-after-ok", ok)
	verifAssert("gc-invisible", verifSameContent(before, after))

	// layout: inside one file no two pointers overlap, and no pointer reaches beyond the file
	ptrs := db.idx.mu.pointers
	disjoint, inside := true, true
	for i := range ptrs {
		st, serr := fs.Stat(fileKeyToName(ptrs[i].fileKey))
		if serr != nil || int64(ptrs[i].offset)+int64(ptrs[i].size) > st.Size() {
			inside = false
		}
		for j := i + 1; j < len(ptrs); j++ {
			if ptrs[i].fileKey == ptrs[j].fileKey &&
				ptrs[i].offset < ptrs[j].offset+ptrs[j].size && ptrs[j].offset < ptrs[i].offset+ptrs[i].size {
				disjoint = false
			}
		}
	}
	for i := range ptrs {
		if i < len(offsBefore) && ptrs[i].offset != offsBefore[i] {
			verifReach("gc-moved-a-pointer") // vacuity witness: compaction really happens
			if ptrs[i].offset > offsBefore[i] {
				verifReach("gc-moved-a-pointer-up") // only possible when file order differs from time order
			}
		}
	}
	verifAssert("gc-pointers-disjoint-in-file", disjoint)
	verifAssert("gc-pointers-inside-file", inside)

	// the persisted index is the compacted one
	ndb := VerifReopen(db, fs)
	reopened, ok := verifScan(ndb)
	verifAssert("gc-scan-reopened-ok", ok)
	verifAssert("gc-invisible-after-reopen", verifSameContent(before, reopened))
	verifReach("end")
}

func verifPtrStarting(db *DB, start telem.TimeStamp) (pointer, bool) {
	for _, p := range db.idx.mu.pointers {
		if p.Start == start {
			return p, true
		}
	}
	return pointer{}, false
}

// VerifC01LazyPersistReopen: domains committed by auto-committing writers whose index persistence is deferred
// (the commit only updates the in-memory index unless the persist interval has elapsed on the arbitrary clock)
// are all on disk once their writers are closed: after closing and reopening the DB a full scan returns every
// domain with its bytes, whatever the order in which the writers ran and whichever commits happened to persist.
func VerifC01LazyPersistReopen() {
	n := verifLen("n", 1, verifParam("n", 3))
	fs := xfs.NewMem()
	db, err := Open(Config{FS: fs}) // default file size: no roll-over, one pointer per writer
	if err != nil {
		panic(err)
	}
	ctx := context.Background()
	order := make([]int, 0, n)
	for i := 0; i < n; i++ {
		pos := i
		if i > 0 {
			pos = verifLen("write-order", 0, i)
		}
		order = append(order, 0)
		copy(order[pos+1:], order[pos:])
		order[pos] = i
	}
	yes := true
	want := make([]verifContent, n)
	writers := make([]*Writer, n)
	// all writers are open at the same time: commits interleave, closes come last
	for _, i := range order {
		start := telem.TimeStamp(100 * (i + 1))
		d1 := []byte{byte(16*(i+1) + 1), byte(16*(i+1) + 2)}
		w, err := db.OpenWriter(ctx, WriterConfig{Start: start, EnableAutoCommit: &yes, AutoIndexPersistInterval: telem.Hour})
		if err != nil {
			panic(err)
		}
		writers[i] = w
		if _, err = w.Write(d1); err != nil {
			panic(err)
		}
		if err = w.Commit(ctx, start+10); err != nil {
			panic(err)
		}
		want[i] = verifContent{tr: telem.TimeRange{Start: start, End: start + 10}, data: d1}
	}
	for i, w := range writers {
		if verifBool("second-commit") {
			start := telem.TimeStamp(100 * (i + 1))
			if _, err = w.Write([]byte{byte(16*(i+1) + 3)}); err != nil {
				panic(err)
			}
			if err = w.Commit(ctx, start+20); err != nil {
				panic(err)
			}
			want[i].tr.End = start + 20
			want[i].data = append(want[i].data, byte(16*(i+1)+3))
		}
	}
	for _, w := range writers {
		if err = w.Close(); err != nil {
			panic(err)
		}
	}
	before, ok := verifScan(db)
	verifAssert("lazy-scan-before-ok", ok)
	verifAssert("lazy-in-memory-exact", verifSameContent(before, want))
	ndb := VerifReopen(db, fs)
	after, ok := verifScan(ndb)
	verifAssert("lazy-scan-after-reopen-ok", ok)
	verifAssert("lazy-reopened-exact", verifSameContent(after, want))
	verifReach("end")
}

// VerifC03Rollover: one writer commits several chunks of arbitrary size at arbitrary increasing end stamps on a
// DB whose files are so small that commits roll over to new files, in front of a domain that already exists
// later in time. A commit succeeds exactly when its range stays clear of the existing domain; whatever the
// roll-overs, the index stays sorted and overlap-free, the writer's domains tile [start, last commit end)
// without gaps, and a scan returns exactly the committed bytes in order.
func VerifC03Rollover() {
	fs := xfs.NewMem()
	db, err := Open(Config{FS: fs, FileSize: 5, GCThreshold: 0.25})
	if err != nil {
		panic(err)
	}
	ctx := context.Background()
	no := false
	// the neighbour later in time
	nw, err := db.OpenWriter(ctx, WriterConfig{Start: 500, EnableAutoCommit: &no})
	if err != nil {
		panic(err)
	}
	_, _ = nw.Write([]byte{0xEE})
	if err = nw.Commit(ctx, 600); err != nil {
		panic(err)
	}
	_ = nw.Close()

	w, err := db.OpenWriter(ctx, WriterConfig{Start: 100, EnableAutoCommit: &no})
	if err != nil {
		panic(err)
	}
	rounds := verifParam("rounds", 3)
	var committed []byte
	prevEnd := telem.TimeStamp(100)
	next := byte(1)
	for r := 0; r < rounds; r++ {
		n := verifLen("chunk", 1, 3)
		chunk := make([]byte, n)
		for i := range chunk {
			chunk[i] = next
			next++
		}
		if _, err = w.Write(chunk); err != nil {
			panic(err)
		}
		end := telem.TimeStamp(verifInt64("end"))
		verifAssume(end >= 0 && end <= 700)
		cerr := w.Commit(ctx, end)
		if end < prevEnd || end <= 100 {
			// a commit may never move the committed end backwards (nor reach back to the writer's start),
			// whether or not it also rolls the file over
			verifAssert("rollover-backwards-commit-refused", cerr != nil)
			break
		}
		if end == prevEnd {
			// no progress in time: accepted within a file, refused right after a roll-over (the new domain
			// would be empty in time); either is fine, but a refusal ends this writer's script
			if cerr != nil {
				break
			}
			committed = append(committed, chunk...)
			continue
		}
		clear := end <= 500
		verifAssert("rollover-commit-ok-iff-clear-of-neighbour", (cerr == nil) == clear)
		if cerr != nil {
			verifAssert("rollover-conflict-is-write-conflict", errors.Is(cerr, ErrWriteConflict))
			break
		}
		committed = append(committed, chunk...)
		prevEnd = end
	}
	_ = w.Close()
	ptrs := db.idx.mu.pointers
	verifAssert("rollover-index-invariant", verifHInvIndex(ptrs))
	// the writer's domains tile [100, prevEnd)
	tiles := true
	cursor := telem.TimeStamp(100)
	for _, p := range ptrs {
		if p.Start >= 500 {
			continue
		}
		if p.Start != cursor {
			tiles = false
		}
		cursor = p.End
	}
	if len(committed) > 0 && cursor != prevEnd {
		tiles = false
	}
	mine := 0
	for _, p := range ptrs {
		if p.Start < 500 {
			mine++
		}
	}
	if mine >= 2 {
		verifReach("rollover-happened") // vacuity witness
	}
	verifAssert("rollover-domains-tile-the-committed-range", tiles)
	got, ok := verifScan(db)
	verifAssert("rollover-scan-ok", ok)
	var bytesGot []byte
	for _, c := range got {
		if c.tr.Start < 500 {
			bytesGot = append(bytesGot, c.data...)
		}
	}
	same := len(bytesGot) == len(committed)
	for i := range bytesGot {
		if i < len(committed) && bytesGot[i] != committed[i] {
			same = false
		}
	}
	verifAssert("rollover-scan-returns-committed-bytes-in-order", same)
	verifReach("end")
}

// VerifC04GCInterleavedDelete: a delete that runs while garbage collection is copying a file (after GC has
// scanned the file's pointers, before it rewrites their offsets) splits or trims pointers GC already knows
// about. Both operations succeed, and afterwards — in memory and after reopening — a full scan returns exactly
// the content that remains after both deletes, whatever the first delete, the interleaved delete and the write
// order were.
func VerifC04GCInterleavedDelete() {
	n := verifLen("n", 2, verifParam("n", 3))
	specs := make([]VerifDomainSpec, n)
	for i := range specs {
		d := []byte{byte(16*(i+1) + 0), byte(16*(i+1) + 1), byte(16*(i+1) + 2)}
		specs[i] = VerifDomainSpec{Start: telem.TimeStamp(100 * (i + 1)), End: telem.TimeStamp(100*(i+1) + 30), Data: d}
	}
	order := make([]int, 0, n)
	for i := 0; i < n; i++ {
		pos := i
		if i > 0 {
			pos = verifLen("write-order", 0, i)
		}
		order = append(order, 0)
		copy(order[pos+1:], order[pos:])
		order[pos] = i
	}
	mem := xfs.NewMem()
	hook := &xfs.VerifHookFS{FS: mem}
	// FileSize 7 (effective 6): the first two domains written fill file 1 (a full file leaves the writer pool,
	// so GC may compact it); one tombstone byte triggers compaction
	db := verifBuildRealDBCfg(Config{FS: hook, FileSize: 7, GCThreshold: 0.2}, specs, order)
	ctx := context.Background()
	// byte-granular deletes inside one domain: sample j of domain i lives at time 100(i+1)+10j
	type cut struct{ dom, from, to int } // removes bytes [from,to) of domain dom
	pick := func(label string) cut {
		c := cut{dom: verifLen(label+".domain", 0, n-1), from: verifLen(label+".from", 0, 2)}
		c.to = verifLen(label+".to", c.from+1, 3)
		return c
	}
	apply := func(c cut) error {
		base := telem.TimeStamp(100 * (c.dom + 1))
		tr := telem.TimeRange{Start: base + telem.TimeStamp(10*c.from), End: base + telem.TimeStamp(10*c.to)}
		// offsets relative to the pointer that currently holds the bound (earlier cuts may have split the domain)
		res := func(_ context.Context, domainStart telem.TimeStamp, ts telem.TimeStamp) (telem.Size, telem.TimeStamp, error) {
			return telem.Size((ts - domainStart) / 10), ts, nil
		}
		return db.Delete(ctx, tr, res, res)
	}
	first, second := pick("first"), pick("second")
	verifAssert("first-delete-ok", apply(first) == nil)
	fired := false
	var secondErr error
	hook.OnOpen = func(name string, _ int) {
		if !fired && len(name) > 3 && name[len(name)-3:] == "_gc" {
			fired = true
			secondErr = apply(second)
		}
	}
	gcErr := db.GarbageCollect(ctx)
	hook.OnOpen = nil
	verifAssert("gc-with-interleaved-delete-no-error", gcErr == nil)
	if !fired {
		return // the first delete did not leave enough garbage for a compaction: nothing interleaved
	}
	verifReach("delete-ran-inside-gc")
	verifAssert("interleaved-delete-ok", secondErr == nil)
	// reference content: every byte of every domain not removed by either cut, grouped as the index groups it
	removed := func(dom, j int) bool {
		return (first.dom == dom && j >= first.from && j < first.to) || (second.dom == dom && j >= second.from && j < second.to)
	}
	var want []byte
	for i := 0; i < n; i++ {
		for j := 0; j < 3; j++ {
			if !removed(i, j) {
				want = append(want, specs[i].Data[j])
			}
		}
	}
	flat := func(cs []verifContent) []byte {
		var out []byte
		for _, c := range cs {
			out = append(out, c.data...)
		}
		return out
	}
	sameBytes := func(a, b []byte) bool {
		if len(a) != len(b) {
			return false
		}
		same := true
		for i := range a {
			if a[i] != b[i] {
				same = false
			}
		}
		return same
	}
	got, ok := verifScan(db)
	verifAssert("scan-after-gc-ok", ok)
	verifAssert("content-after-gc-is-what-both-deletes-left", sameBytes(flat(got), want))
	ndb := VerifReopen(db, mem)
	got2, ok2 := verifScan(ndb)
	verifAssert("scan-after-reopen-ok", ok2)
	verifAssert("content-after-reopen-is-what-both-deletes-left", sameBytes(flat(got2), want))
	verifReach("end")
}

// VerifC04DeleteInterleavedGC: the mirror schedule. Delete looks its start and end pointers up, releases the
// index lock while the offset resolvers run (file reads in the unary layer) and only then takes the write lock.
// A whole garbage-collection pass that completes inside that window — here: when the start or the end resolver
// is called — moves the bytes of the very pointers the delete is about to split. Both operations succeed and a
// scan, in memory and after reopening, returns exactly what the two deletes left.
func VerifC04DeleteInterleavedGC() {
	n := verifLen("n", 2, verifParam("n", 3))
	specs := make([]VerifDomainSpec, n)
	for i := range specs {
		d := []byte{byte(16*(i+1) + 0), byte(16*(i+1) + 1), byte(16*(i+1) + 2)}
		specs[i] = VerifDomainSpec{Start: telem.TimeStamp(100 * (i + 1)), End: telem.TimeStamp(100*(i+1) + 30), Data: d}
	}
	mem := xfs.NewMem()
	db := verifBuildRealDBCfg(Config{FS: mem, FileSize: 7, GCThreshold: 0.2}, specs, nil)
	ctx := context.Background()
	type cut struct{ dom, from, to int }
	pick := func(label string) cut {
		c := cut{dom: verifLen(label+".domain", 0, n-1), from: verifLen(label+".from", 0, 2)}
		c.to = verifLen(label+".to", c.from+1, 3)
		return c
	}
	res := func(_ context.Context, domainStart telem.TimeStamp, ts telem.TimeStamp) (telem.Size, telem.TimeStamp, error) {
		return telem.Size((ts - domainStart) / 10), ts, nil
	}
	rangeOf := func(c cut) telem.TimeRange {
		base := telem.TimeStamp(100 * (c.dom + 1))
		return telem.TimeRange{Start: base + telem.TimeStamp(10*c.from), End: base + telem.TimeStamp(10*c.to)}
	}
	first, second := pick("first"), pick("second")
	verifAssert("first-delete-ok", db.Delete(ctx, rangeOf(first), res, res) == nil)
	atEnd := verifBool("gc-at-end-resolver")
	fired := false
	var gcErr error
	withGC := func(_ context.Context, domainStart telem.TimeStamp, ts telem.TimeStamp) (telem.Size, telem.TimeStamp, error) {
		if !fired {
			fired = true
			gcErr = db.GarbageCollect(ctx)
		}
		return telem.Size((ts - domainStart) / 10), ts, nil
	}
	var derr error
	if atEnd {
		derr = db.Delete(ctx, rangeOf(second), res, withGC)
	} else {
		derr = db.Delete(ctx, rangeOf(second), withGC, res)
	}
	verifAssert("delete-with-interleaved-gc-ok", derr == nil)
	if !fired {
		return // the second range met no pointer on that side: no resolver call, nothing interleaved
	}
	verifReach("gc-ran-inside-delete")
	verifAssert("interleaved-gc-no-error", gcErr == nil)
	removed := func(dom, j int) bool {
		return (first.dom == dom && j >= first.from && j < first.to) || (second.dom == dom && j >= second.from && j < second.to)
	}
	var want []byte
	for i := 0; i < n; i++ {
		for j := 0; j < 3; j++ {
			if !removed(i, j) {
				want = append(want, specs[i].Data[j])
			}
		}
	}
	flat := func(cs []verifContent) []byte {
		var out []byte
		for _, c := range cs {
			out = append(out, c.data...)
		}
		return out
	}
	sameBytes := func(a, b []byte) bool {
		if len(a) != len(b) {
			return false
		}
		same := true
		for i := range a {
			if a[i] != b[i] {
				same = false
			}
		}
		return same
	}
	got, ok := verifScan(db)
	verifAssert("scan-after-delete-ok", ok)
	verifAssert("content-is-what-both-deletes-left", sameBytes(flat(got), want))
	ndb := VerifReopen(db, mem)
	got2, ok2 := verifScan(ndb)
	verifAssert("scan-after-reopen-ok", ok2)
	verifAssert("content-after-reopen-is-what-both-deletes-left", sameBytes(flat(got2), want))
	verifReach("end")
}

// VerifC04GCUnderIterator: an iterator stays open, positioned on a domain, while a garbage-collection pass
// compacts the file that domain lives in. Reading through the iterator afterwards — the current domain without
// re-seeking, then every following domain — returns the same bytes as before the pass.
func VerifC04GCUnderIterator() {
	n := verifParam("n", 3)
	specs := make([]VerifDomainSpec, n)
	for i := range specs {
		d := []byte{byte(16*(i+1) + 0), byte(16*(i+1) + 1), byte(16*(i+1) + 2)}
		specs[i] = VerifDomainSpec{Start: telem.TimeStamp(100 * (i + 1)), End: telem.TimeStamp(100*(i+1) + 30), Data: d}
	}
	mem := xfs.NewMem()
	db := verifBuildRealDBCfg(Config{FS: mem, FileSize: 7, GCThreshold: 0.2}, specs, nil)
	ctx := context.Background()
	res := func(_ context.Context, domainStart telem.TimeStamp, ts telem.TimeStamp) (telem.Size, telem.TimeStamp, error) {
		return telem.Size((ts - domainStart) / 10), ts, nil
	}
	dom, from := verifLen("cut.domain", 0, n-1), verifLen("cut.from", 0, 2)
	to := verifLen("cut.to", from+1, 3)
	base := telem.TimeStamp(100 * (dom + 1))
	verifAssert("delete-ok", db.Delete(ctx, telem.TimeRange{Start: base + telem.TimeStamp(10*from), End: base + telem.TimeStamp(10*to)}, res, res) == nil)
	want, ok := verifScan(db)
	verifAssert("scan-before-gc-ok", ok)
	if len(want) == 0 {
		return
	}
	readCur := func(it *Iterator) ([]byte, bool) {
		r, err := it.OpenReader(ctx)
		if err != nil {
			return nil, false
		}
		buf := make([]byte, it.Size())
		good := true
		if len(buf) > 0 {
			if _, err = r.ReadAt(buf, 0); err != nil {
				good = false
			}
		}
		if r.Close() != nil {
			good = false
		}
		return buf, good
	}
	same := func(a, b []byte) bool {
		if len(a) != len(b) {
			return false
		}
		eq := true
		for i := range a {
			if a[i] != b[i] {
				eq = false
			}
		}
		return eq
	}
	it := db.OpenIterator(IterRange(telem.TimeRangeMax))
	at := verifLen("positioned-at", 0, len(want)-1)
	verifAssert("seek-first", it.SeekFirst(ctx))
	for k := 0; k < at; k++ {
		verifAssert("advance", it.Next())
	}
	before, okb := readCur(it)
	verifAssert("read-before-gc-ok", okb && same(before, want[at].data))
	verifAssert("gc-ok", db.GarbageCollect(ctx) == nil)
	for k := at; k < len(want); k++ {
		if k > at {
			verifAssert("advance-after-gc", it.Next())
		}
		got, okr := readCur(it)
		verifAssert("read-through-open-iterator-after-gc-ok", okr)
		verifAssert("read-through-open-iterator-unchanged-by-gc", same(got, want[k].data) && it.TimeRange() == want[k].tr)
	}
	verifAssert("iterator-close", it.Close() == nil)
	verifReach("end")
}

// VerifC09ReaderOpenVsGC: a reader and a garbage-collection pass on two goroutines. The reader has chosen the
// pointer of the domain it is about to read and is opening the data file; the whole GC pass runs at that very
// moment (the file has no registered handle yet, so GC does not skip it) and moves the domain inside the file.
// Whatever the schedule, the bytes the reader returns are the bytes of its domain.
func VerifC09ReaderOpenVsGC() {
	n := 3
	specs := make([]VerifDomainSpec, n)
	for i := range specs {
		d := []byte{byte(16*(i+1) + 0), byte(16*(i+1) + 1), byte(16*(i+1) + 2)}
		specs[i] = VerifDomainSpec{Start: telem.TimeStamp(100 * (i + 1)), End: telem.TimeStamp(100*(i+1) + 30), Data: d}
	}
	mem := xfs.NewMem()
	hook := &xfs.VerifHookFS{FS: mem}
	cfg := Config{FS: hook, FileSize: 7, GCThreshold: 0.2}
	db := verifBuildRealDBCfg(cfg, specs, nil)
	ctx := context.Background()
	res := func(_ context.Context, domainStart telem.TimeStamp, ts telem.TimeStamp) (telem.Size, telem.TimeStamp, error) {
		return telem.Size((ts - domainStart) / 10), ts, nil
	}
	dom, from := verifLen("cut.domain", 0, n-1), verifLen("cut.from", 0, 2)
	to := verifLen("cut.to", from+1, 3)
	base := telem.TimeStamp(100 * (dom + 1))
	verifAssert("delete-ok", db.Delete(ctx, telem.TimeRange{Start: base + telem.TimeStamp(10*from), End: base + telem.TimeStamp(10*to)}, res, res) == nil)
	want, ok := verifScan(db)
	verifAssert("scan-before-gc-ok", ok)
	if len(want) == 0 {
		return
	}
	// the scan left file handles in the reader pool (GC skips files with handles): start from a reopened DB
	if err := db.Close(); err != nil {
		panic(err)
	}
	var err0 error
	if db, err0 = Open(cfg); err0 != nil {
		panic(err0)
	}
	it := db.OpenIterator(IterRange(telem.TimeRangeMax))
	at := verifLen("positioned-at", 0, len(want)-1)
	verifAssert("seek-first", it.SeekFirst(ctx))
	for k := 0; k < at; k++ {
		verifAssert("advance", it.Next())
	}
	fired := false
	var gcErr error
	atOpen := verifBool("gc-while-the-reader-opens-the-file")
	if atOpen {
		hook.OnOpen = func(name string, flag int) {
			if !fired && len(name) > 7 && name[len(name)-7:] == ".domain" && name != "index.domain" {
				hook.OnOpen = nil
				// garbage collection holds the file controller's readers lock (read side) while it compacts: if
				// the reader holds the write side at this point the pass cannot run here — it waits
				if !db.fc.readers.TryRLock() {
					return
				}
				db.fc.readers.RUnlock()
				fired = true
				gcErr = db.GarbageCollect(ctx)
			}
		}
	}
	r, err := it.OpenReader(ctx)
	hook.OnOpen = nil
	verifAssert("open-reader-ok", err == nil)
	if err != nil {
		return
	}
	verifObserveBool("gc-ran-inside-reader-open", fired)
	if !fired {
		// the pass runs (or resumes) once the reader has its handle
		fired = true
		gcErr = db.GarbageCollect(ctx)
		verifReach("gc-ran-after-reader-open")
	}
	verifAssert("interleaved-gc-no-error", gcErr == nil)
	buf := make([]byte, it.Size())
	good := true
	if len(buf) > 0 {
		if _, err = r.ReadAt(buf, 0); err != nil {
			good = false
		}
	}
	verifAssert("reader-close", r.Close() == nil)
	same := len(buf) == len(want[at].data)
	for i := range buf {
		if i < len(want[at].data) && buf[i] != want[at].data[i] {
			same = false
		}
	}
	verifAssert("read-ok", good)
	verifAssert("reader-returns-the-bytes-of-its-domain", same)
	verifAssert("iterator-close", it.Close() == nil)
	verifReach("end")
}

// VerifC04GCInterleavedWriter: after a reopen, a file with free space and a tombstone is both a candidate for
// garbage collection and available to new writers. A writer that is opened (and may start writing) while
// GarbageCollect is between its "has this file a writer?" check and the compaction of that file and that
// writes and commits after GC has finished must not lose its data: afterwards, in memory and after reopening, a scan returns the old content and the new domain.
func VerifC04GCInterleavedWriter() {
	mem := xfs.NewMem()
	specs := []VerifDomainSpec{
		{Start: 100, End: 130, Data: []byte{0x10, 0x11, 0x12}},
		{Start: 200, End: 220, Data: []byte{0x20, 0x21}},
	}
	cfg := Config{FS: mem, FileSize: 20, GCThreshold: 0.05}
	db := verifBuildRealDBCfg(cfg, specs, nil)
	ctx := context.Background()
	// a tombstone: drop `cut` bytes from the head of the first domain
	cut := verifLen("cut", 1, 2)
	res := func(_ context.Context, domainStart telem.TimeStamp, ts telem.TimeStamp) (telem.Size, telem.TimeStamp, error) {
		return telem.Size((ts - domainStart) / 10), ts, nil
	}
	verifAssert("setup-delete-ok", db.Delete(ctx, telem.TimeRange{Start: 100, End: telem.TimeStamp(100 + 10*cut)}, res, res) == nil)
	if err := db.Close(); err != nil {
		panic(err)
	}
	hook := &xfs.VerifHookFS{FS: mem}
	cfg.FS = hook
	ndb, err := Open(cfg)
	if err != nil {
		panic(err)
	}
	no := false
	fired := false
	var werr error
	newData := []byte{0x30, 0x31}
	where := verifLen("interleave-at", 0, 1) // 0: at GC's Stat of the data file, 1: when GC opens the copy file
	var w *Writer
	early := verifBool("write-before-gc-resumes") // part of the data is written inside the window, the rest after GC
	run := func() {
		if fired {
			return
		}
		fired = true
		if w, werr = ndb.OpenWriter(ctx, WriterConfig{Start: 300, EnableAutoCommit: &no}); werr != nil {
			return
		}
		if early {
			_, werr = w.Write(newData[:1])
		}
	}
	hook.OnStat = func(name string) {
		if where == 0 && name == "1.domain" {
			run()
		}
	}
	hook.OnOpen = func(name string, _ int) {
		if where == 1 && name == "1.domain_gc" {
			run()
		}
	}
	gcErr := ndb.GarbageCollect(ctx)
	hook.OnStat, hook.OnOpen = nil, nil
	verifAssert("gc-with-interleaved-writer-no-error", gcErr == nil)
	// the writer carries on after GC has finished
	if fired && werr == nil {
		rest := newData
		if early {
			rest = newData[1:]
		}
		if _, werr = w.Write(rest); werr == nil {
			if werr = w.Commit(ctx, 320); werr == nil {
				werr = w.Close()
			}
		}
	}
	verifAssert("writer-was-interleaved", fired) // GC does reach both interleaving points in this layout
	verifReach("writer-ran-inside-gc")
	verifObserveBool("writer-error", werr != nil)
	want := []verifContent{
		{tr: telem.TimeRange{Start: telem.TimeStamp(100 + 10*cut), End: 130}, data: specs[0].Data[cut:]},
		{tr: telem.TimeRange{Start: 200, End: 220}, data: specs[1].Data},
	}
	if werr == nil {
		want = append(want, verifContent{tr: telem.TimeRange{Start: 300, End: 320}, data: newData})
	}
	got, ok := verifScan(ndb)
	verifAssert("scan-after-gc-and-writer-ok", ok)
	verifAssert("content-keeps-old-and-new-data", verifSameContent(got, want))
	rdb := VerifReopen(ndb, mem)
	got2, ok2 := verifScan(rdb)
	verifAssert("scan-after-reopen-ok", ok2)
	verifAssert("content-after-reopen-keeps-old-and-new-data", verifSameContent(got2, want))
	verifReach("end")
}

// VerifC02LazyRolloverReopen: one auto-committing writer whose index persistence is deferred (one-hour interval
// on an arbitrary clock) commits chunks that roll over to new files; once the writer is closed everything it
// committed is on disk: closing and reopening the DB returns exactly the committed bytes, in order, in domains
// that tile the committed time range.
func VerifC02LazyRolloverReopen() {
	fs := xfs.NewMem()
	db, err := Open(Config{FS: fs, FileSize: 5, GCThreshold: 0.25})
	if err != nil {
		panic(err)
	}
	ctx := context.Background()
	yes := true
	w, err := db.OpenWriter(ctx, WriterConfig{Start: 100, EnableAutoCommit: &yes, AutoIndexPersistInterval: telem.Hour})
	if err != nil {
		panic(err)
	}
	rounds := verifParam("rounds", 3)
	var committed []byte
	end := telem.TimeStamp(100)
	next := byte(1)
	for r := 0; r < rounds; r++ {
		n := verifLen("chunk", 1, 3)
		chunk := make([]byte, n)
		for i := range chunk {
			chunk[i] = next
			next++
		}
		if _, err = w.Write(chunk); err != nil {
			panic(err)
		}
		end += 10
		if err = w.Commit(ctx, end); err != nil {
			panic(err)
		}
		committed = append(committed, chunk...)
	}
	if err = w.Close(); err != nil {
		panic(err)
	}
	check := func(label string, d *DB) {
		got, ok := verifScan(d)
		verifAssert(label+"-scan-ok", ok)
		var bytesGot []byte
		tiles := true
		cursor := telem.TimeStamp(100)
		for _, c := range got {
			bytesGot = append(bytesGot, c.data...)
			if c.tr.Start != cursor {
				tiles = false
			}
			cursor = c.tr.End
		}
		if cursor != end {
			tiles = false
		}
		same := len(bytesGot) == len(committed)
		for i := range bytesGot {
			if i < len(committed) && bytesGot[i] != committed[i] {
				same = false
			}
		}
		verifAssert(label+"-committed-bytes-in-order", same)
		verifAssert(label+"-domains-tile-the-committed-range", tiles)
	}
	check("lazy-rollover-in-memory", db)
	check("lazy-rollover-reopened", VerifReopen(db, fs))
	verifReach("end")
}
