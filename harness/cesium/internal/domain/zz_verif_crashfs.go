//go:build verif_harness

package domain

import (
	"context"

	xfs "github.com/synnaxlabs/x/io/fs"
	"github.com/synnaxlabs/x/telem"
)

// VerifC02CrashScript: a script of writer commits, a delete and a garbage collection runs on a real DB whose
// file system kills the process at an arbitrary mutating call (with an arbitrary torn prefix for writes); the
// DB is then reopened from what survived. Reopening and a full scan must succeed, and the content must be the
// state after the last state-changing operation that completed, or — when the crash happened inside such an
// operation — that state or the operation's result.
func VerifC02CrashScript() {
	mem := xfs.NewMem()
	st := &xfs.VerifCrashState{Budget: verifLen("crash-at", 0, verifParam("mutations", 60))}
	cfs := &xfs.VerifCrashFS{FS: mem, St: st}
	ctx := context.Background()
	no := false
	n1 := verifLen("n1", 1, 2)
	n2 := verifLen("n2", 1, 2)
	delKind := verifLen("delete", 0, 2) // 0: middle domain entirely, 1: tail of the first, 2: first two domains

	mk := func(k, n int) []byte {
		d := make([]byte, n)
		for i := range d {
			d[i] = byte(16*k + i)
		}
		return d
	}
	dom := func(start, end int, data []byte) verifContent {
		return verifContent{tr: telem.TimeRange{Start: telem.TimeStamp(start), End: telem.TimeStamp(end)}, data: data}
	}
	// logical states after each state-changing operation
	d1a, d1b := mk(1, n1), append(mk(1, n1), mk(2, n2)...)
	d2, d3 := mk(3, 2), mk(4, 1)
	states := [][]verifContent{
		{},
		{dom(100, 110, d1a)},
		{dom(100, 120, d1b)},
		{dom(100, 120, d1b), dom(200, 210, d2)},
		{dom(100, 120, d1b), dom(200, 210, d2), dom(300, 310, d3)},
	}
	var tr telem.TimeRange
	var startOff, endOff telem.Size
	switch delKind {
	case 0:
		tr = telem.TimeRange{Start: 200, End: 210}
		startOff, endOff = 0, 2
		states = append(states, []verifContent{dom(100, 120, d1b), dom(300, 310, d3)})
	case 1:
		tr = telem.TimeRange{Start: 105, End: 120}
		startOff, endOff = 1, telem.Size(len(d1b))
		states = append(states, []verifContent{dom(100, 105, d1b[:1]), dom(200, 210, d2), dom(300, 310, d3)})
	default:
		tr = telem.TimeRange{Start: 100, End: 210}
		startOff, endOff = 0, 2
		states = append(states, []verifContent{dom(300, 310, d3)})
	}
	done := 0         // state-changing operations completed
	changing := false // inside a state-changing operation
	inGC := false

	xfs.VerifCrashRun(func() {
		db, err := Open(Config{FS: cfs, FileSize: 5, GCThreshold: 0.25})
		if err != nil {
			panic(err)
		}
		commit := func(w *Writer, data []byte, end int) {
			if _, err := w.Write(data); err != nil {
				panic(err)
			}
			changing = true
			if err := w.Commit(ctx, telem.TimeStamp(end)); err != nil {
				panic(err)
			}
			changing = false
			done++
		}
		open := func(start int) *Writer {
			w, err := db.OpenWriter(ctx, WriterConfig{Start: telem.TimeStamp(start), EnableAutoCommit: &no})
			if err != nil {
				panic(err)
			}
			return w
		}
		w := open(100)
		commit(w, mk(1, n1), 110)
		commit(w, mk(2, n2), 120)
		_ = w.Close()
		w = open(200)
		commit(w, d2, 210)
		_ = w.Close()
		w = open(300)
		commit(w, d3, 310)
		_ = w.Close()
		changing = true
		err = db.Delete(ctx, tr,
			func(_ context.Context, _ telem.TimeStamp, t telem.TimeStamp) (telem.Size, telem.TimeStamp, error) {
				return startOff, t, nil
			},
			func(_ context.Context, _ telem.TimeStamp, t telem.TimeStamp) (telem.Size, telem.TimeStamp, error) {
				return endOff, t, nil
			})
		if err != nil {
			panic(err)
		}
		changing = false
		done++
		inGC = true
		if err = db.GarbageCollect(ctx); err != nil {
			panic(err)
		}
		if err = db.Close(); err != nil {
			panic(err)
		}
	})
	verifObserve("done", int64(done))
	verifObserveBool("crashed", st.Crashed)
	verifObserve("site", int64(st.Site))
	if !st.Crashed {
		verifReach("script-completed")
		verifAssert("script-completes-without-crash", done == len(states)-1)
	}

	// reopen from what survived
	// Known findings. C02-index-rewrite-not-atomic: the index file is rewritten in place (Truncate to the new
	// length, then WriteAt); every consequence of a crash at exactly those two calls is attributed to it.
	// C02-gc-swap-not-crash-safe: garbage collection replaces N.domain by two renames and persists the shifted
	// offsets only after all files; a crash from the first rename up to the end of that index rewrite leaves a
	// missing data file or stale offsets.
	finding := "C02-index-rewrite-not-atomic"
	pattern := st.Crashed && st.OnIndex && (st.Site == xfs.VerifSiteTruncate || st.Site == xfs.VerifSiteWriteAt)
	if st.Crashed && inGC && (st.Site == xfs.VerifSiteRename || st.Site == xfs.VerifSiteRemove || pattern) {
		finding, pattern = "C02-gc-swap-not-crash-safe", true
	}
	assertK := func(label string, cond bool) { verifAssertKnown(label, cond, finding, pattern) }
	ndb, err := Open(Config{FS: mem, FileSize: 5, GCThreshold: 0.25})
	assertK("reopen-succeeds", err == nil)
	if err != nil {
		return
	}
	got, ok := verifScan(ndb)
	assertK("scan-after-reopen-succeeds", ok)
	old := verifSameContent(got, states[done])
	newer := changing && done+1 < len(states) && verifSameContent(got, states[done+1])
	assertK("content-is-last-completed-state-or-the-interrupted-operation's-result", old || newer)
	// whatever survived: never bytes that were not written for that time, never overlapping domains
	foreign := false
	for i, c := range got {
		if i > 0 && got[i-1].tr.End > c.tr.Start {
			foreign = true
		}
		var want []byte
		switch {
		case c.tr.Start == 100:
			want = d1b
		case c.tr.Start == 200:
			want = d2
		case c.tr.Start == 300:
			want = d3
		default:
			foreign = true
		}
		if len(c.data) > len(want) {
			foreign = true
		} else {
			for j := range c.data {
				if c.data[j] != want[j] {
					foreign = true
				}
			}
		}
	}
	assertK("no-bytes-that-were-never-written", !foreign)
	verifAssert("reopened-db-closes", ndb.Close() == nil)
	verifReach("end")
}
