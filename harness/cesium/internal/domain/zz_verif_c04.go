//go:build verif_harness

package domain

import (
	"context"

	"github.com/synnaxlabs/x/telem"
)

// VerifC04DeleteStep: one DB.Delete from an arbitrary invariant-satisfying index with offset resolvers that are
// constrained only by their documented contract.
func VerifC04DeleteStep() {
	n := verifLen("n", 0, verifParam("n", 3))
	idx := verifIndex(n)
	db, vf := verifDB(idx)
	before := verifSnapshot(idx)
	// representation invariant: no stored domain is empty (a commit of zero bytes inserts nothing, and a delete
	// only keeps the non-empty head/tail of a domain). Without it, a zero-size domain inside the range makes
	// "nothing to remove" ambiguous: found by the thorough tier at n=3 and traced to this unreachable pre-state.
	for i := range before {
		verifAssume(before[i].size > 0)
	}
	totalBefore := idx.totalSize.Load()
	tr := telem.TimeRange{Start: telem.TimeStamp(verifInt64("tr.start")), End: telem.TimeStamp(verifInt64("tr.end"))}
	verifAssume(tr.Start >= 0 && tr.Start <= tr.End)

	find := func(domainStart telem.TimeStamp) int {
		for i := range before {
			if before[i].Start == domainStart {
				return i
			}
		}
		return -1
	}
	// resolver results (symbolic, contract-constrained). so: bytes kept at the head of the start domain;
	// eo: byte position inside the end domain where the kept tail begins.
	var (
		sd, ed         = -1, -1
		so, eo         telem.Size
		ss, se         telem.TimeStamp
		startCalled    bool
		endCalled      bool
		contractBroken bool
	)
	startRes := func(_ context.Context, domainStart telem.TimeStamp, ts telem.TimeStamp) (telem.Size, telem.TimeStamp, error) {
		i := find(domainStart)
		if i < 0 || !(before[i].Start <= ts && ts < before[i].End) {
			contractBroken = true
			return 0, ts, nil
		}
		sd, startCalled = i, true
		so = telem.Size(verifUint32("so"))
		ss = telem.TimeStamp(verifInt64("ss"))
		verifAssume(so <= telem.Size(before[i].size))
		verifAssume(before[i].Start <= ss && ss <= before[i].End)
		if so > 0 {
			verifAssume(ss > before[i].Start)
		}
		return so, ss, nil
	}
	endRes := func(_ context.Context, domainStart telem.TimeStamp, ts telem.TimeStamp) (telem.Size, telem.TimeStamp, error) {
		i := find(domainStart)
		if i < 0 || !(before[i].Start <= ts && ts < before[i].End) {
			contractBroken = true
			return 0, ts, nil
		}
		ed, endCalled = i, true
		eo = telem.Size(verifUint32("eo"))
		se = telem.TimeStamp(verifInt64("se"))
		verifAssume(eo <= telem.Size(before[i].size))
		verifAssume(before[i].Start <= se && se <= before[i].End)
		if eo < telem.Size(before[i].size) {
			verifAssume(se < before[i].End)
		}
		if startCalled && sd == i {
			verifAssume(so <= eo && ss <= se)
		}
		return eo, se, nil
	}
	err := db.Delete(context.Background(), tr, startRes, endRes)
	verifAssert("delete-resolver-asked-about-containing-domain", !contractBroken)
	after := idx.mu.pointers

	// reference: positions and kept parts
	if !startCalled {
		// tr.Start is in no domain: first domain starting after tr.Start, nothing kept of it
		sd = n
		for i := n - 1; i >= 0; i-- {
			if before[i].Start > tr.Start {
				sd = i
			}
		}
		so = 0
	}
	if !endCalled {
		// tr.End is in no domain: last domain starting before tr.End, nothing kept of it
		ed = -1
		for i := 0; i < n; i++ {
			if before[i].Start < tr.End {
				ed = i
			}
		}
		if ed >= 0 {
			eo = telem.Size(before[ed].size)
		}
	}
	var want []pointer
	nothing := sd >= n || ed < 0 || sd > ed
	if !nothing {
		removed := int64(0)
		if sd == ed {
			removed = int64(eo) - int64(so)
		} else {
			removed = int64(before[sd].size) - int64(so) + int64(eo)
			for i := sd + 1; i < ed; i++ {
				removed += int64(before[i].size)
			}
		}
		if removed == 0 {
			nothing = true
		}
	}
	if nothing {
		want = before
	} else {
		want = append(want, before[:sd]...)
		if so > 0 {
			want = append(want, pointer{TimeRange: telem.TimeRange{Start: before[sd].Start, End: ss}, fileKey: before[sd].fileKey, offset: before[sd].offset, size: uint32(so)})
		}
		if eo < telem.Size(before[ed].size) {
			want = append(want, pointer{TimeRange: telem.TimeRange{Start: se, End: before[ed].End}, fileKey: before[ed].fileKey, offset: before[ed].offset + uint32(eo), size: before[ed].size - uint32(eo)})
		}
		want = append(want, before[ed+1:]...)
	}
	verifObserveBool("err", err != nil)
	verifObserve("len-after", int64(len(after)))
	verifAssert("delete-no-error", err == nil)
	if verifParam("debug", 0) == 1 {
		for _, p := range after {
			verifObserve("after.start", int64(p.Start))
			verifObserve("after.end", int64(p.End))
			verifObserve("after.offset", int64(p.offset))
			verifObserve("after.size", int64(p.size))
		}
		for _, p := range want {
			verifObserve("want.start", int64(p.Start))
			verifObserve("want.end", int64(p.End))
			verifObserve("want.offset", int64(p.offset))
			verifObserve("want.size", int64(p.size))
		}
	}
	verifAssert("delete-exact-pointers", verifHSameSlice(after, want))
	verifAssert("delete-inv", verifHInvIndex(after))
	verifAssert("delete-total-size", idx.totalSize.Load() == totalBefore-verifSum(before)+verifSum(after))
	if !nothing {
		// the persisted image is what a reopen would load
		verifAssert("delete-persisted", verifHSameSlice(idx.indexPersist.p.decode(vf.data), after))
	}
	verifReach("end")
}
