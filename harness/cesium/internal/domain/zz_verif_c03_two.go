//go:build verif_harness

package domain

import (
	"context"

	"github.com/synnaxlabs/x/errors"
	xfs "github.com/synnaxlabs/x/io/fs"
	"github.com/synnaxlabs/x/telem"
	"github.com/synnaxlabs/x/validate"
)

// verifTwoWriter is the reference model of one writer in VerifC03TwoWriters.
type verifTwoWriter struct {
	w          *Writer
	start, end telem.TimeStamp // end == 0: no preset end
	written    []byte          // every byte handed to Write
	committed  bool
	cEnd       telem.TimeStamp // end of the committed domain
	cLen       int             // bytes covered by the committed domain
}

func (m *verifTwoWriter) preset() bool { return m.end != 0 }

// openRange is the range OpenWriter checks against stored data.
func (m *verifTwoWriter) insideOrOverlaps(d telem.TimeRange) bool {
	if !m.preset() || m.end == m.start {
		return d.Start <= m.start && m.start < d.End
	}
	return refOverlapTR(d, telem.TimeRange{Start: m.start, End: m.end})
}

// VerifC03TwoWriters: two writers on one real domain DB (in-memory file system), with arbitrary starts and
// optional preset ends, next to one stored domain. The second writer is opened before or after the first
// writer's first commit; then a script of commits, each by either writer at an arbitrary end stamp, runs. After
// every step the database content (ranges and bytes, read back through iterators and readers) equals the
// reference model: an open is refused iff the writer's start (range, with a preset end) lies in stored data; a
// commit is refused with a validation error when it does not end after the writer's start or moves backwards,
// with a write conflict when its range would overlap another domain — including the one the other writer
// committed in the meantime — and is otherwise stored as [start, end) over every byte written so far; refused
// operations change nothing.
func VerifC03TwoWriters() {
	const maxT = 60
	fs := xfs.NewMem()
	db, err := Open(Config{FS: fs})
	if err != nil {
		panic(err)
	}
	ctx := context.Background()
	no := false

	var model []verifContent // other domains, in commit order (sorted on comparison)
	if verifBool("stored") {
		s, e := telem.TimeStamp(verifInt64("d.start")), telem.TimeStamp(verifInt64("d.end"))
		verifAssume(s >= 1 && s < e && e <= maxT)
		sw, err := db.OpenWriter(ctx, WriterConfig{Start: s, EnableAutoCommit: &no})
		if err != nil {
			panic(err)
		}
		_, _ = sw.Write([]byte{0xEE})
		if err = sw.Commit(ctx, e); err != nil {
			panic(err)
		}
		_ = sw.Close()
		model = append(model, verifContent{tr: telem.TimeRange{Start: s, End: e}, data: []byte{0xEE}})
	}

	ws := [2]*verifTwoWriter{{}, {}}
	for i, m := range ws {
		m.start = telem.TimeStamp(verifInt64("w.start"))
		m.end = telem.TimeStamp(verifInt64("w.end"))
		verifAssume(m.start >= 1 && m.start <= maxT)
		verifAssume(m.end == 0 || (m.end >= m.start && m.end <= maxT))
		_ = i
	}

	// content expected in the database: stored domain plus the committed domain of each writer
	expected := func() []verifContent {
		out := append([]verifContent{}, model...)
		for _, m := range ws {
			if m.committed {
				out = append(out, verifContent{tr: telem.TimeRange{Start: m.start, End: m.cEnd}, data: m.written[:m.cLen]})
			}
		}
		// insertion sort by start
		for i := 1; i < len(out); i++ {
			for j := i; j > 0 && out[j-1].tr.Start > out[j].tr.Start; j-- {
				out[j-1], out[j] = out[j], out[j-1]
			}
		}
		return out
	}
	checkContent := func(label string) {
		got, ok := verifScan(db)
		verifAssert(label+"-readable", ok)
		verifAssert(label+"-content-matches-model", verifSameContent(got, expected()))
		verifAssert(label+"-index-invariant", verifHInvIndex(db.idx.mu.pointers))
	}
	open := func(i int) {
		m := ws[i]
		refused := false
		for _, d := range expected() {
			if m.insideOrOverlaps(d.tr) {
				refused = true
			}
		}
		w, err := db.OpenWriter(ctx, WriterConfig{Start: m.start, End: m.end, EnableAutoCommit: &no})
		verifObserveBool("open-err", err != nil)
		verifAssert("open-refused-iff-start-in-data", (err != nil) == refused)
		if err != nil {
			verifAssert("open-refusal-is-write-conflict", errors.Is(err, ErrWriteConflict))
			return
		}
		m.w = w
	}
	next := byte(1)
	commit := func(i int) {
		m := ws[i]
		if m.w == nil {
			return
		}
		if _, err := m.w.Write([]byte{next}); err != nil {
			panic(err)
		}
		m.written = append(m.written, next)
		next++
		end := telem.TimeStamp(verifInt64("end"))
		verifAssume(end >= 0 && end <= maxT)
		cerr := m.w.Commit(ctx, end)
		verifObserveBool("commit-err", cerr != nil)
		eff := end
		if m.preset() {
			if end > m.end {
				verifAssert("commit-past-preset-end-refused", cerr != nil)
				checkContent("after-refused-commit")
				return
			}
			eff = m.end
		}
		conflict := false
		for j, o := range ws {
			if j != i && o.committed && refOverlapTR(telem.TimeRange{Start: o.start, End: o.cEnd}, telem.TimeRange{Start: m.start, End: eff}) {
				conflict = true
			}
		}
		for _, d := range model {
			if refOverlapTR(d.tr, telem.TimeRange{Start: m.start, End: eff}) {
				conflict = true
			}
		}
		switch {
		case eff <= m.start || (m.committed && eff < m.cEnd):
			verifAssert("commit-backwards-or-empty-is-validation-error", cerr != nil && errors.Is(cerr, validate.ErrValidation))
		case conflict:
			verifAssert("commit-overlap-is-write-conflict", cerr != nil && errors.Is(cerr, ErrWriteConflict))
		default:
			verifAssert("commit-accepted", cerr == nil)
			if cerr == nil {
				m.committed, m.cEnd, m.cLen = true, eff, len(m.written)
			}
		}
		if cerr != nil {
			checkContent("after-refused-commit")
		} else {
			checkContent("after-commit")
		}
	}

	open(0)
	late := verifBool("openSecondAfterFirstCommit")
	if !late {
		open(1)
	}
	steps := verifParam("steps", 3)
	for s := 0; s < steps; s++ {
		who := 0
		if s > 0 || !late {
			if verifBool("who") {
				who = 1
			}
		}
		commit(who)
		if s == 0 && late {
			open(1)
			checkContent("after-open")
		}
	}
	for _, m := range ws {
		if m.w != nil {
			verifAssert("close", m.w.Close() == nil)
		}
	}
	checkContent("after-close")
	if ws[0].committed && ws[1].committed {
		verifReach("both-committed") // vacuity witness
	}
	verifReach("end")
}
