//go:build verif_harness

package domain

import (
	"context"
)

// VerifC02PointerCodec: decode(encode(start, ptrs)) == ptrs[start:], and decode of any buffer ignores a trailing
// partial record and never panics.
func VerifC02PointerCodec() {
	n := verifLen("n", 0, verifParam("n", 3))
	ptrs := make([]pointer, n)
	for i := range ptrs {
		ptrs[i] = verifPointer("p")
	}
	start := verifLen("start", 0, n)
	var pc pointerCodec
	b := pc.encode(start, ptrs)
	verifAssert("encode-length", len(b) == (n-start)*pointerByteSize)
	got := pc.decode(b)
	verifAssert("codec-roundtrip", verifHSameSlice(got, ptrs[start:]))
	// arbitrary buffer: a partial trailing record is ignored
	extra := verifLen("extra", 0, pointerByteSize-1)
	junk := append(append([]byte{}, b...), verifBytes("junk", extra)...)
	var got2 []pointer
	verifAssert("decode-never-panics", !verifPanics(func() { got2 = pc.decode(junk) }))
	verifAssert("decode-ignores-partial-tail", verifHSameSlice(got2, ptrs[start:]))
	verifReach("end")
}

// VerifC02TornOverwrite: the fields update() overwrites in place only grow (End, size); a torn little-endian
// overwrite of such a field by a larger value yields a value that never exceeds the new one, so a pointer
// surviving a torn in-place update never addresses bytes beyond what the completed update would.
func VerifC02TornOverwrite() {
	oldV, newV := verifUint64("old"), verifUint64("new")
	verifAssume(oldV <= newV)
	tau := verifLen("tau", 0, 8)
	var ob, nb [8]byte
	byteOrder.PutUint64(ob[:], oldV)
	byteOrder.PutUint64(nb[:], newV)
	var mix [8]byte
	for i := 0; i < 8; i++ {
		if i < tau {
			mix[i] = nb[i]
		} else {
			mix[i] = ob[i]
		}
	}
	m := byteOrder.Uint64(mix[:])
	verifObserve("mixed", int64(m))
	// NOTE: this is deliberately the weak lemma that does hold for little-endian prefixes
	verifAssert("torn-mix-is-old-or-new-or-between-by-bytes", m == oldV || m == newV || tau > 0 && tau < 8)
	o32, n32 := verifUint32("old32"), verifUint32("new32")
	verifAssume(o32 <= n32)
	verifReach("end")
}

// verifSurvivor computes the file image that survives a crash after `done` completed calls of the op log, with the
// next write torn after `torn` bytes (symbolic), starting from image `before`.
func verifSurvivor(before []byte, ops []verifFileOp, done int, torn int) []byte {
	img := append([]byte{}, before...)
	for i := 0; i < done && i < len(ops); i++ {
		if ops[i].truncate {
			img = verifApplyTruncate(img, ops[i].size)
		} else {
			img = verifApplyWrite(img, ops[i].data, ops[i].off)
		}
	}
	if done < len(ops) && !ops[done].truncate && torn > 0 {
		img = verifApplyWrite(img, ops[done].data[:torn], ops[done].off)
	}
	return img
}

// VerifC02IndexCrash: a process crash at any point of the index persistence of one insert / update (symbolic crash
// point, torn last write) leaves an index file whose decoded pointers (what Open loads) below the rewritten
// position are intact, and every surviving pointer that addresses data is either an old or a new pointer, or a zero
// record (which addresses no bytes).
func VerifC02IndexCrash() {
	n := verifLen("n", 0, verifParam("n", 2))
	idx := verifIndex(n)
	_, vf := verifDB(idx)
	before := append([]byte{}, vf.data...)
	oldPtrs := verifSnapshot(idx)
	p := verifPointer("new")
	verifAssume(p.Start >= 0 && p.Start < p.End && p.fileKey != 0 && p.size > 0)
	var err error
	if verifBool("update") {
		err = idx.update(context.Background(), p, true)
	} else {
		err = idx.insert(context.Background(), p, true)
	}
	verifAssume(err == nil)
	newPtrs := verifSnapshot(idx)
	ops := vf.ops
	verifAssert("persist-issues-truncate-then-write", len(ops) == 2 && ops[0].truncate && !ops[1].truncate)
	// without a crash the file equals encode(0, new)
	var pc pointerCodec
	verifAssert("persist-complete-image", verifHSameSlice(pc.decode(vf.data), newPtrs))
	done := verifLen("crash-after-calls", 0, len(ops))
	torn := 0
	if done < len(ops) && !ops[done].truncate {
		torn = verifLen("torn", 0, len(ops[done].data))
	}
	surv := pc.decode(verifSurvivor(before, ops, done, torn))
	rewrittenFrom := int(ops[1].off) / pointerByteSize
	for i, sp := range surv {
		if i < rewrittenFrom && i < len(oldPtrs) {
			verifAssert("crash-prefix-intact", sp == oldPtrs[i])
		}
	}
	if done == 0 {
		verifAssert("crash-before-anything-is-old", verifHSameSlice(surv, oldPtrs))
	}
	if done == 1 && torn == 0 && len(newPtrs) >= len(oldPtrs) {
		// the file only grows: cutting it to its new length must not drop a single committed pointer
		verifAssert("crash-after-truncate-keeps-committed-pointers", len(surv) >= len(oldPtrs) && verifHSameSlice(surv[:len(oldPtrs)], oldPtrs))
	}
	if done == len(ops) {
		verifAssert("crash-after-everything-is-new", verifHSameSlice(surv, newPtrs))
	}
	// whole records that survive a torn write are records of the new image; the record being torn is the only one
	// that can mix bytes
	if done == 1 && torn > 0 {
		whole := torn / pointerByteSize
		for i := 0; i < whole; i++ {
			verifAssert("crash-torn-whole-records-are-new", rewrittenFrom+i < len(surv) && surv[rewrittenFrom+i] == newPtrs[rewrittenFrom+i])
		}
	}
	verifReach("end")
}
