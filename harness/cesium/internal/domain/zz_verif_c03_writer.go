//go:build verif_harness

package domain

import (
	"context"

	"github.com/synnaxlabs/x/errors"
	xio "github.com/synnaxlabs/x/io"
	"github.com/synnaxlabs/x/telem"
	"github.com/synnaxlabs/x/validate"
)

//verif:redirect (*github.com/synnaxlabs/cesium/internal/domain.fileController).acquireWriter github.com/synnaxlabs/cesium/internal/domain.verifAcquireWriter only=VerifC03WriterStep

// verifTracked is the engine-side model of the data-file writer handed out by the file controller: it counts
// bytes; the file content is not modelled (C03 is about time ranges, not bytes).
type verifTracked struct {
	base, n int64
}

func (t *verifTracked) Reset()                      { t.base, t.n = t.base+t.n, 0 }
func (t *verifTracked) Offset() int64               { return t.base }
func (t *verifTracked) Len() int64                  { return t.n }
func (t *verifTracked) Write(p []byte) (int, error) { t.n += int64(len(p)); return len(p), nil }
func (t *verifTracked) Close() error                { return nil }

var verifNextFileKey uint16

func verifAcquireWriter(fc *fileController, _ context.Context) (uint16, int64, xio.TrackedWriteCloser, error) {
	verifNextFileKey++
	return 100 + verifNextFileKey, 0, &verifTracked{}, nil
}

// VerifC03WriterStep: opening a writer inside stored data is refused; a commit fails with a validation error when
// its end is not after the start or before the previous commit, fails with a write conflict when the committed
// range would overlap another domain, and otherwise stores exactly [start, end); every failure leaves the index
// unchanged and the index invariant always holds.
func VerifC03WriterStep() {
	n := verifLen("n", 0, verifParam("n", 2))
	specs := make([]VerifDomainSpec, n)
	prev := telem.TimeStamp(-1)
	for i := range specs {
		s, e := telem.TimeStamp(verifInt64("d.start")), telem.TimeStamp(verifInt64("d.end"))
		verifAssume(s >= 0 && s >= prev && s < e)
		specs[i] = VerifDomainSpec{Start: s, End: e, Data: []byte{byte(i + 1)}}
		prev = e
	}
	db := VerifBuildDB(specs)
	if verifSymbolic() {
		db.fc = &fileController{Config: Config{FileSize: 1 << 20}}
		verifNextFileKey = 0
	}
	ctx := context.Background()
	no := false
	start := telem.TimeStamp(verifInt64("w.start"))
	verifAssume(start >= 0)
	inside := false
	for _, s := range specs {
		if s.Start <= start && start < s.End {
			inside = true
		}
	}
	w, err := db.OpenWriter(ctx, WriterConfig{Start: start, EnableAutoCommit: &no})
	verifObserveBool("open-err", err != nil)
	verifAssert("open-refused-iff-inside-data", (err != nil) == inside)
	if err != nil {
		verifAssert("open-refusal-is-write-conflict", errors.Is(err, ErrWriteConflict))
		verifReach("end")
		return
	}
	overlapsOther := func(end telem.TimeStamp) bool {
		for _, s := range specs {
			if refOverlapTR(telem.TimeRange{Start: s.Start, End: s.End}, telem.TimeRange{Start: start, End: end}) {
				return true
			}
		}
		return false
	}
	domains := func() []telem.TimeRange {
		var out []telem.TimeRange
		it := db.OpenIterator(IterRange(telem.TimeRangeMax))
		for ok := it.SeekFirst(ctx); ok; ok = it.Next() {
			out = append(out, it.TimeRange())
		}
		_ = it.Close()
		return out
	}
	sameAsBefore := func(got []telem.TimeRange) bool {
		if len(got) != len(specs) {
			return false
		}
		for i := range got {
			if got[i] != (telem.TimeRange{Start: specs[i].Start, End: specs[i].End}) {
				return false
			}
		}
		return true
	}
	// first commit
	_, _ = w.Write([]byte{7, 7})
	end1 := telem.TimeStamp(verifInt64("end1"))
	verifAssume(end1 >= 0)
	err1 := w.Commit(ctx, end1)
	verifObserveBool("commit1-err", err1 != nil)
	committed := false
	switch {
	case end1 <= start:
		verifAssert("commit-end-not-after-start-is-validation-error", err1 != nil && errors.Is(err1, validate.ErrValidation))
	case overlapsOther(end1):
		verifAssert("commit-overlap-is-write-conflict", err1 != nil && errors.Is(err1, ErrWriteConflict))
	default:
		verifAssert("commit-accepted", err1 == nil)
		committed = err1 == nil
	}
	if err1 != nil {
		verifAssert("failed-commit-leaves-index-unchanged", sameAsBefore(domains()))
	}
	// second commit extends (or retries) the same domain
	_, _ = w.Write([]byte{8})
	end2 := telem.TimeStamp(verifInt64("end2"))
	verifAssume(end2 >= 0)
	err2 := w.Commit(ctx, end2)
	verifObserveBool("commit2-err", err2 != nil)
	switch {
	case end2 <= start || (committed && end2 < end1):
		verifAssert("commit2-validation-error", err2 != nil && errors.Is(err2, validate.ErrValidation))
	case overlapsOther(end2):
		verifAssert("commit2-write-conflict", err2 != nil && errors.Is(err2, ErrWriteConflict))
	default:
		verifAssert("commit2-accepted", err2 == nil)
	}
	// final index: the stored domains plus at most one new domain [start, lastAcceptedEnd), sorted and disjoint
	got := domains()
	var wantEnd telem.TimeStamp = -1
	if committed {
		wantEnd = end1
	}
	if err2 == nil {
		wantEnd = end2
	}
	cnt := 0
	for i, tr := range got {
		if i > 0 {
			verifAssert("index-sorted-disjoint", got[i-1].End <= tr.Start)
		}
		verifAssert("index-nonempty-ranges", tr.Start < tr.End)
		if tr.Start == start && wantEnd >= 0 {
			cnt++
			verifAssert("new-domain-range", tr.End == wantEnd)
		}
	}
	if wantEnd >= 0 {
		verifAssert("new-domain-present-once", cnt == 1 && len(got) == len(specs)+1)
	} else {
		verifAssert("nothing-stored-without-accepted-commit", sameAsBefore(got))
	}
	verifAssert("close", w.Close() == nil)
	verifReach("end")
}
