//go:build verif_harness

package domain

import (
	"context"
	"sync"

	xfs "github.com/synnaxlabs/x/io/fs"
	"github.com/synnaxlabs/x/telem"
)

func verifRaceDriverNative() {
	db, err := Open(Config{FS: xfs.NewMem()})
	if err != nil {
		panic(err)
	}
	ctx := context.Background()
	var wg sync.WaitGroup
	no := false
	for g := 0; g < 4; g++ {
		wg.Add(1)
		go func(g int) {
			defer wg.Done()
			for it := 0; it < 60; it++ {
				start := telem.TimeStamp((g*1000 + it*10 + 1)) * telem.SecondTS
				w, err := db.OpenWriter(ctx, WriterConfig{Start: start, EnableAutoCommit: &no})
				if err != nil {
					continue
				}
				_, _ = w.Write([]byte{1, 2, 3, 4})
				_ = w.Commit(ctx, start+5*telem.SecondTS)
				_, _ = w.Write([]byte{5, 6})
				_ = w.Commit(ctx, start+7*telem.SecondTS)
				_ = w.Close()
			}
		}(g)
	}
	wg.Add(1)
	go func() {
		defer wg.Done()
		for it := 0; it < 200; it++ {
			_, _ = db.HasDataFor(ctx, telem.TimeRange{Start: 0, End: telem.TimeStamp(5000) * telem.SecondTS})
			if it%20 == 0 {
				zero := func(_ context.Context, _ telem.TimeStamp, t telem.TimeStamp) (telem.Size, telem.TimeStamp, error) {
					return 0, t, nil
				}
				_ = db.Delete(ctx, telem.TimeRange{Start: telem.TimeStamp(3990) * telem.SecondTS, End: telem.TimeStamp(3995) * telem.SecondTS}, zero, zero)
			}
		}
	}()
	// direct index traffic: one goroutine keeps appending fresh domains far away while another keeps offering a
	// pointer that conflicts with stored data (the conflict-error path of insert)
	wg.Add(2)
	go func() {
		defer wg.Done()
		for it := 0; it < 300; it++ {
			s := telem.TimeStamp(100000+it*10) * telem.SecondTS
			_ = db.idx.insert(ctx, pointer{TimeRange: telem.TimeRange{Start: s, End: s + telem.SecondTS}, fileKey: 1, size: 1}, false)
		}
	}()
	go func() {
		defer wg.Done()
		for it := 0; it < 300; it++ {
			s := telem.TimeStamp(100000) * telem.SecondTS
			_ = db.idx.insert(ctx, pointer{TimeRange: telem.TimeRange{Start: s, End: s + 2*telem.SecondTS}, fileKey: 1, size: 1}, false)
		}
	}()
	wg.Wait()
	_ = db.Close()
}
