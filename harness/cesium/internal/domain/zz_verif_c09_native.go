//go:build verif_harness

package domain

import (
	"context"
	"sync"

	xfs "github.com/synnaxlabs/x/io/fs"
	"github.com/synnaxlabs/x/telem"
)

func verifRaceDriverNative() {
	db, err := Open(Config{FS: xfs.NewMem()})
	if err != nil {
		panic(err)
	}
	ctx := context.Background()
	var wg sync.WaitGroup
	no := false
	for g := 0; g < 4; g++ {
		wg.Add(1)
		go func(g int) {
			defer wg.Done()
			for it := 0; it < 60; it++ {
				start := telem.TimeStamp((g*1000 + it*10 + 1)) * telem.SecondTS
				w, err := db.OpenWriter(ctx, WriterConfig{Start: start, EnableAutoCommit: &no})
				if err != nil {
					continue
				}
				_, _ = w.Write([]byte{1, 2, 3, 4})
				_ = w.Commit(ctx, start+5*telem.SecondTS)
				_, _ = w.Write([]byte{5, 6})
				_ = w.Commit(ctx, start+7*telem.SecondTS)
				_ = w.Close()
			}
		}(g)
	}
	wg.Add(1)
	go func() {
		defer wg.Done()
		for it := 0; it < 200; it++ {
			_, _ = db.HasDataFor(ctx, telem.TimeRange{Start: 0, End: telem.TimeStamp(5000) * telem.SecondTS})
			if it%20 == 0 {
				zero := func(_ context.Context, _ telem.TimeStamp, t telem.TimeStamp) (telem.Size, telem.TimeStamp, error) {
					return 0, t, nil
				}
				_ = db.Delete(ctx, telem.TimeRange{Start: telem.TimeStamp(3990) * telem.SecondTS, End: telem.TimeStamp(3995) * telem.SecondTS}, zero, zero)
			}
		}
	}()
	// direct index traffic: one goroutine keeps appending fresh domains far away while another keeps offering a
	// pointer that conflicts with stored data (the conflict-error path of insert)
	wg.Add(2)
	go func() {
		defer wg.Done()
		for it := 0; it < 300; it++ {
			s := telem.TimeStamp(100000+it*10) * telem.SecondTS
			_ = db.idx.insert(ctx, pointer{TimeRange: telem.TimeRange{Start: s, End: s + telem.SecondTS}, fileKey: 1, size: 1}, false)
		}
	}()
	go func() {
		defer wg.Done()
		for it := 0; it < 300; it++ {
			s := telem.TimeStamp(100000) * telem.SecondTS
			_ = db.idx.insert(ctx, pointer{TimeRange: telem.TimeRange{Start: s, End: s + 2*telem.SecondTS}, fileKey: 1, size: 1}, false)
		}
	}()
	// update traffic: one writer keeps extending a domain into its neighbour (the conflict-error path of update)
	// while the neighbour's own writer keeps committing
	base := telem.TimeStamp(200000) * telem.SecondTS
	_ = db.idx.insert(ctx, pointer{TimeRange: telem.TimeRange{Start: base, End: base + telem.SecondTS}, fileKey: 1, size: 1}, false)
	_ = db.idx.insert(ctx, pointer{TimeRange: telem.TimeRange{Start: base + 20*telem.SecondTS, End: base + 21*telem.SecondTS}, fileKey: 1, size: 1}, false)
	_ = db.idx.insert(ctx, pointer{TimeRange: telem.TimeRange{Start: base - 20*telem.SecondTS, End: base - 19*telem.SecondTS}, fileKey: 1, size: 1}, false)
	wg.Add(3)
	go func() {
		defer wg.Done()
		for it := 0; it < 300; it++ {
			_ = db.idx.update(ctx, pointer{TimeRange: telem.TimeRange{Start: base, End: base + 30*telem.SecondTS}, fileKey: 1, size: 2}, false)
		}
	}()
	go func() {
		defer wg.Done()
		for it := 0; it < 300; it++ {
			s := base + 20*telem.SecondTS
			_ = db.idx.update(ctx, pointer{TimeRange: telem.TimeRange{Start: s, End: s + telem.TimeStamp(it%5+1)*telem.SecondTS}, fileKey: 1, size: uint32(it%5 + 1)}, false)
		}
	}()
	go func() {
		defer wg.Done()
		for it := 0; it < 300; it++ {
			s := base - 20*telem.SecondTS
			_ = db.idx.update(ctx, pointer{TimeRange: telem.TimeRange{Start: s, End: s + telem.TimeStamp(it%5+1)*telem.SecondTS}, fileKey: 1, size: uint32(it%5 + 1)}, false)
		}
	}()
	wg.Wait()
	_ = db.Close()
}

func verifNewMemFS() xfs.FS { return xfs.NewMem() }

func verifGCRaceDriverNative() {
	db, err := Open(Config{FS: xfs.NewMem(), FileSize: 40, GCThreshold: 0.05})
	if err != nil {
		panic(err)
	}
	ctx := context.Background()
	no := false
	write := func(k int) {
		start := telem.TimeStamp(k*10+1) * telem.SecondTS
		w, err := db.OpenWriter(ctx, WriterConfig{Start: start, EnableAutoCommit: &no})
		if err != nil {
			return
		}
		_, _ = w.Write([]byte{1, 2, 3, 4, 5, 6, 7, 8})
		_ = w.Commit(ctx, start+5*telem.SecondTS)
		_ = w.Close()
	}
	for k := 0; k < 40; k++ {
		write(k)
	}
	var wg sync.WaitGroup
	stop := make(chan struct{})
	wg.Add(2)
	go func() { // index readers
		defer wg.Done()
		for {
			select {
			case <-stop:
				return
			default:
			}
			_, _ = db.HasDataFor(ctx, telem.TimeRange{Start: 0, End: telem.TimeStamp(5000) * telem.SecondTS})
			it := db.OpenIterator(IterRange(telem.TimeRangeMax))
			for ok := it.SeekFirst(ctx); ok; ok = it.Next() {
				_ = it.Size()
			}
			_ = it.Close()
		}
	}()
	go func() { // deletes create tombstones, garbage collection compacts them
		defer wg.Done()
		head := func(_ context.Context, _ telem.TimeStamp, t telem.TimeStamp) (telem.Size, telem.TimeStamp, error) {
			return 2, t, nil
		}
		tail := func(_ context.Context, _ telem.TimeStamp, t telem.TimeStamp) (telem.Size, telem.TimeStamp, error) {
			return 6, t, nil
		}
		for k := 0; k < 40; k++ {
			s := telem.TimeStamp(k*10+1) * telem.SecondTS
			_ = db.Delete(ctx, telem.TimeRange{Start: s + telem.SecondTS, End: s + 2*telem.SecondTS}, head, tail)
			if k%4 == 3 {
				_ = db.GarbageCollect(ctx)
			}
		}
		close(stop)
	}()
	wg.Wait()
	_ = db.Close()
}
