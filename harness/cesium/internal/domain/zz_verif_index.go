//go:build verif_harness

package domain

import (
	"context"
	"sync/atomic"

	"github.com/synnaxlabs/x/errors"
	"github.com/synnaxlabs/x/telem"
)

// ---- shared builders for a symbolic domain index (used by C02, C03, C04, C09, C10) ----

func verifPointer(label string) pointer {
	return pointer{
		TimeRange: telem.TimeRange{Start: telem.TimeStamp(verifInt64(label + ".start")), End: telem.TimeStamp(verifInt64(label + ".end"))},
		fileKey:   verifUint16(label + ".fileKey"),
		offset:    verifUint32(label + ".offset"),
		size:      verifUint32(label + ".size"),
	}
}

// verifHInvIndex is representation invariant I of DESIGN 4.0 (time clause): valid non-empty ranges with a
// non-zero file key, sorted and pairwise disjoint (abutting allowed).
func verifHInvIndex(ptrs []pointer) bool {
	for i := range ptrs {
		if ptrs[i].Start < 0 {
			return false
		}
		if ptrs[i].Start >= ptrs[i].End {
			return false
		}
		if ptrs[i].fileKey == 0 {
			return false
		}
		if i > 0 {
			if ptrs[i-1].End > ptrs[i].Start {
				return false
			}
		}
	}
	return true
}

// verifIndex builds an index with n symbolic pointers satisfying the invariant.
func verifIndex(n int) *index {
	idx := &index{totalSize: &atomic.Int64{}}
	ptrs := make([]pointer, n)
	var total int64
	for i := 0; i < n; i++ {
		ptrs[i] = verifPointer("p")
		total += int64(ptrs[i].size)
	}
	verifAssume(verifHInvIndex(ptrs))
	idx.mu.pointers = ptrs
	idx.totalSize.Store(total)
	idx.persistHead = n
	return idx
}

func verifSnapshot(idx *index) []pointer {
	out := make([]pointer, len(idx.mu.pointers))
	copy(out, idx.mu.pointers)
	return out
}

func verifHSameSlice(a, b []pointer) bool {
	if len(a) != len(b) {
		return false
	}
	for i := range a {
		if a[i] != b[i] {
			return false
		}
	}
	return true
}

func verifSum(ptrs []pointer) int64 {
	var t int64
	for i := range ptrs {
		t += int64(ptrs[i].size)
	}
	return t
}

// refOverlapTR: reference overlap on valid ranges.
func refOverlapTR(a, b telem.TimeRange) bool {
	if a == b || a.Start == b.Start {
		return true
	}
	return a.Start < b.End && b.Start < a.End
}

// VerifC03InsertStep: one insert from an arbitrary invariant-satisfying index.
func VerifC03InsertStep() {
	n := verifLen("n", 0, verifParam("n", 3))
	idx := verifIndex(n)
	p := verifPointer("new")
	verifAssume(p.Start >= 0 && p.Start < p.End)
	before := verifSnapshot(idx)
	totalBefore := idx.totalSize.Load()
	err := idx.insert(context.Background(), p, false)
	after := idx.mu.pointers
	if p.fileKey == 0 {
		verifAssert("insert-zero-filekey-rejected", err != nil)
		verifAssert("insert-zero-filekey-unchanged", verifHSameSlice(before, after))
		verifReach("end")
		return
	}
	ov := false
	for i := range before {
		if refOverlapTR(before[i].TimeRange, p.TimeRange) {
			ov = true
		}
	}
	verifObserveBool("err", err != nil)
	verifAssert("insert-ok-iff-no-overlap", (err == nil) == !ov)
	if err != nil {
		verifAssert("insert-fail-is-write-conflict", errors.Is(err, ErrWriteConflict))
		verifAssert("insert-fail-unchanged", verifHSameSlice(before, after))
		verifAssert("insert-fail-total-unchanged", idx.totalSize.Load() == totalBefore)
	} else {
		verifAssert("insert-inv", verifHInvIndex(after))
		verifAssert("insert-len", len(after) == len(before)+1)
		// content: after = before with p inserted at one position
		k := 0
		for k < len(before) && before[k].Start < p.Start {
			k++
		}
		okContent := len(after) == len(before)+1
		if okContent {
			for i := 0; i < k; i++ {
				if after[i] != before[i] {
					okContent = false
				}
			}
			if after[k] != p {
				okContent = false
			}
			for i := k; i < len(before); i++ {
				if after[i+1] != before[i] {
					okContent = false
				}
			}
		}
		verifAssert("insert-content", okContent)
		verifAssert("insert-total", idx.totalSize.Load() == totalBefore+int64(p.size))
		verifAssert("insert-persist-head", idx.persistHead <= k)
	}
	verifReach("end")
}

// VerifC03UpdateStep: one update (writer commit path) from an arbitrary invariant-satisfying index.
func VerifC03UpdateStep() {
	n := verifLen("n", 0, verifParam("n", 3))
	idx := verifIndex(n)
	p := verifPointer("upd")
	verifAssume(p.Start >= 0 && p.Start < p.End && p.fileKey != 0)
	before := verifSnapshot(idx)
	totalBefore := idx.totalSize.Load()
	err := idx.update(context.Background(), p, false)
	after := idx.mu.pointers
	at := -1
	for i := range before {
		if before[i].Start == p.Start {
			at = i
		}
	}
	if at < 0 {
		verifAssert("update-unknown-start-rejected", err != nil && errors.Is(err, ErrRangeNotFound))
		verifAssert("update-unknown-start-unchanged", verifHSameSlice(before, after))
		verifReach("end")
		return
	}
	ov := false
	for i := range before {
		if i != at && refOverlapTR(before[i].TimeRange, p.TimeRange) {
			ov = true
		}
	}
	verifObserveBool("err", err != nil)
	verifAssert("update-ok-iff-no-overlap", (err == nil) == !ov)
	if err != nil {
		verifAssert("update-fail-is-write-conflict", errors.Is(err, ErrWriteConflict))
		verifAssert("update-fail-unchanged", verifHSameSlice(before, after))
		verifAssert("update-fail-total-unchanged", idx.totalSize.Load() == totalBefore)
	} else {
		verifAssert("update-inv", verifHInvIndex(after))
		okContent := len(after) == len(before)
		if okContent {
			for i := range before {
				if i == at {
					if after[i] != p {
						okContent = false
					}
				} else if after[i] != before[i] {
					okContent = false
				}
			}
		}
		verifAssert("update-content", okContent)
		verifAssert("update-total", idx.totalSize.Load() == totalBefore+int64(p.size)-int64(before[at].size))
		verifAssert("update-persist-head", idx.persistHead <= at)
	}
	verifReach("end")
}

// VerifC03Search: unprotectedSearch / searchLE / searchGE / getGE / overlap against linear-scan oracles.
func VerifC03Search() {
	n := verifLen("n", 0, verifParam("n", 4))
	idx := verifIndex(n)
	ptrs := idx.mu.pointers
	ctx := context.Background()
	ts := telem.TimeStamp(verifInt64("ts"))
	verifAssume(ts >= 0)
	// containing pointer, else last pointer starting at or before ts
	contain, lastLE, firstGT := -1, -1, -1
	for i := range ptrs {
		if ptrs[i].Start <= ts && ts < ptrs[i].End {
			contain = i
		}
		if ptrs[i].Start <= ts {
			lastLE = i
		}
		if firstGT < 0 && ptrs[i].Start > ts {
			firstGT = i
		}
	}
	le := idx.searchLE(ctx, ts)
	verifObserve("le", int64(le))
	if contain >= 0 {
		verifAssert("searchLE-containing", le == contain)
	} else {
		verifAssert("searchLE-prev", le == lastLE)
	}
	ge := idx.searchGE(ctx, ts)
	verifObserve("ge", int64(ge))
	if contain >= 0 {
		verifAssert("searchGE-containing", ge == contain)
	} else {
		if firstGT >= 0 {
			verifAssert("searchGE-next", ge == firstGT)
		} else {
			// no domain at or after ts: callers treat -1 and any out-of-range position as "none"
			verifAssert("searchGE-none", ge == -1 || ge >= n)
		}
	}
	gp, ok := idx.getGE(ctx, ts)
	if contain >= 0 {
		verifAssert("getGE-containing", ok && gp == ptrs[contain])
	} else if firstGT >= 0 {
		verifAssert("getGE-next", ok && gp == ptrs[firstGT])
	} else {
		verifAssert("getGE-none", !ok)
	}
	// range overlap
	tr := telem.TimeRange{Start: ts, End: telem.TimeStamp(verifInt64("tr.end"))}
	verifAssume(tr.Start <= tr.End)
	ov := false
	for i := range ptrs {
		if refOverlapTR(ptrs[i].TimeRange, tr) {
			ov = true
		}
	}
	verifAssert("overlap-ref", idx.overlap(tr) == ov)
	if n > 0 {
		verifAssert("timeRange", idx.timeRange() == telem.TimeRange{Start: ptrs[0].Start, End: ptrs[n-1].End})
	}
	gi, gok := idx.get(verifInt("i"))
	_ = gi
	_ = gok
	verifReach("end")
}
