//go:build verif_harness

package domain

import (
	"context"

	"github.com/synnaxlabs/x/telem"
)

//verif:guard domain.index mu.pointers mu.RWMutex only=VerifC09IndexLockDiscipline,VerifC09GCLockDiscipline
//verif:guard domain.index persistHead mu.RWMutex only=VerifC09IndexLockDiscipline,VerifC09GCLockDiscipline

// VerifC09IndexLockDiscipline drives every index entry point (and DB.Delete / HasDataFor on top of it) on an
// arbitrary index; the engine checks at every load/store of index.mu.pointers and index.persistHead that index.mu
// is held in a sufficient mode, that no lock is unlocked twice or re-acquired while held, and that none is left
// held when the entry point returns.
func VerifC09IndexLockDiscipline() {
	n := verifLen("n", 0, verifParam("n", 2))
	idx := verifIndex(n)
	db, _ := verifDB(idx)
	ctx := context.Background()
	p := verifPointer("p")
	verifAssume(p.Start >= 0 && p.Start < p.End)
	ts := telem.TimeStamp(verifInt64("ts"))
	verifAssume(ts >= 0)
	tr := telem.TimeRange{Start: ts, End: telem.TimeStamp(verifInt64("tr.end"))}
	verifAssume(tr.Start <= tr.End)
	switch verifLen("op", 0, 9) {
	case 0:
		_ = idx.insert(ctx, p, verifBool("persist"))
	case 1:
		// precondition of update (only called from Writer.commit): p.Start is not before every stored domain
		if n > 0 {
			verifAssume(p.Start >= idx.mu.pointers[0].Start)
		}
		_ = idx.update(ctx, p, verifBool("persist"))
	case 2:
		_ = idx.overlap(tr)
	case 3:
		_ = idx.timeRange()
	case 4:
		_ = idx.searchLE(ctx, ts)
	case 5:
		_ = idx.searchGE(ctx, ts)
	case 6:
		_, _ = idx.getGE(ctx, ts)
	case 7:
		_, _ = idx.get(verifInt("i"))
	case 8:
		_, _ = db.HasDataFor(ctx, tr)
	case 9:
		zero := func(_ context.Context, _ telem.TimeStamp, t telem.TimeStamp) (telem.Size, telem.TimeStamp, error) {
			return 0, t, nil
		}
		_ = db.Delete(ctx, tr, zero, zero)
	}
	verifReach("end")
}

// VerifC09RaceDriver is run natively only, under `go test -race`, to confirm lock-discipline findings of the
// symbolic check: several writers commit to disjoint time regions of one real DB (in-memory file system) while
// readers probe it.
func VerifC09RaceDriver() {
	if verifSymbolic() {
		return
	}
	verifRaceDriverNative()
}

// VerifC09GCLockDiscipline: a real DB (in-memory file system) holding up to n domains in shared files receives a
// delete with an arbitrary range and then a garbage collection; every load/store of index.mu.pointers and
// index.persistHead made by Delete and GarbageCollect (outside the harness) must happen under index.mu in a
// sufficient mode, and no lock may be left held.
func VerifC09GCLockDiscipline() {
	n := verifLen("n", 1, verifParam("n", 2))
	specs := make([]VerifDomainSpec, n)
	for i := range specs {
		specs[i] = VerifDomainSpec{Start: telem.TimeStamp(100 * (i + 1)), End: telem.TimeStamp(100*(i+1) + 20), Data: []byte{byte(i), byte(i + 1)}}
	}
	db := verifBuildRealDBCfg(Config{FS: verifNewMemFS(), FileSize: 5, GCThreshold: 0.25}, specs, nil)
	ctx := context.Background()
	tr := telem.TimeRange{Start: telem.TimeStamp(verifInt64("tr.start")), End: telem.TimeStamp(verifInt64("tr.end"))}
	verifAssume(tr.Start >= 0 && tr.Start <= tr.End && tr.End <= 1000)
	zero := func(_ context.Context, _ telem.TimeStamp, t telem.TimeStamp) (telem.Size, telem.TimeStamp, error) {
		return 0, t, nil
	}
	one := func(_ context.Context, _ telem.TimeStamp, t telem.TimeStamp) (telem.Size, telem.TimeStamp, error) {
		return 1, t, nil
	}
	_ = db.Delete(ctx, tr, zero, one)
	var sum uint32
	for _, p := range db.idx.mu.pointers {
		sum += p.offset
	}
	verifAssert("gc-no-error", db.GarbageCollect(ctx) == nil)
	for _, p := range db.idx.mu.pointers {
		sum -= p.offset
	}
	if sum != 0 {
		verifReach("gc-compacted") // vacuity witness
	}
	verifReach("end")
}

// VerifC09GCRaceDriver (native, -race): garbage collection runs while other goroutines read the index.
func VerifC09GCRaceDriver() {
	if verifSymbolic() {
		return
	}
	verifGCRaceDriverNative()
}
