//go:build verif_harness

package domain

import (
	"context"

	"github.com/synnaxlabs/x/telem"
)

//verif:guard domain.index mu.pointers mu.RWMutex only=VerifC09IndexLockDiscipline
//verif:guard domain.index persistHead mu.RWMutex only=VerifC09IndexLockDiscipline

// VerifC09IndexLockDiscipline drives every index entry point (and DB.Delete / HasDataFor on top of it) on an
// arbitrary index; the engine checks at every load/store of index.mu.pointers and index.persistHead that index.mu
// is held in a sufficient mode, that no lock is unlocked twice or re-acquired while held, and that none is left
// held when the entry point returns.
func VerifC09IndexLockDiscipline() {
	n := verifLen("n", 0, verifParam("n", 2))
	idx := verifIndex(n)
	db, _ := verifDB(idx)
	ctx := context.Background()
	p := verifPointer("p")
	verifAssume(p.Start >= 0 && p.Start < p.End)
	ts := telem.TimeStamp(verifInt64("ts"))
	verifAssume(ts >= 0)
	tr := telem.TimeRange{Start: ts, End: telem.TimeStamp(verifInt64("tr.end"))}
	verifAssume(tr.Start <= tr.End)
	switch verifLen("op", 0, 9) {
	case 0:
		_ = idx.insert(ctx, p, verifBool("persist"))
	case 1:
		// precondition of update (only called from Writer.commit): p.Start is not before every stored domain
		if n > 0 {
			verifAssume(p.Start >= idx.mu.pointers[0].Start)
		}
		_ = idx.update(ctx, p, verifBool("persist"))
	case 2:
		_ = idx.overlap(tr)
	case 3:
		_ = idx.timeRange()
	case 4:
		_ = idx.searchLE(ctx, ts)
	case 5:
		_ = idx.searchGE(ctx, ts)
	case 6:
		_, _ = idx.getGE(ctx, ts)
	case 7:
		_, _ = idx.get(verifInt("i"))
	case 8:
		_, _ = db.HasDataFor(ctx, tr)
	case 9:
		zero := func(_ context.Context, _ telem.TimeStamp, t telem.TimeStamp) (telem.Size, telem.TimeStamp, error) {
			return 0, t, nil
		}
		_ = db.Delete(ctx, tr, zero, zero)
	}
	verifReach("end")
}

// VerifC09RaceDriver is run natively only, under `go test -race`, to confirm lock-discipline findings of the
// symbolic check: several writers commit to disjoint time regions of one real DB (in-memory file system) while
// readers probe it.
func VerifC09RaceDriver() {
	if verifSymbolic() {
		return
	}
	verifRaceDriverNative()
}
