//go:build verif_harness

package domain

import (
	"io"
	"sync/atomic"

	"github.com/synnaxlabs/x/io/fs"
)

// verifFile is the harness model of the index file: a byte array with Truncate/WriteAt/ReadAt semantics and a
// log of the mutating calls (used by the crash harnesses of C02). Completed calls survive, nothing is reordered.
type verifFile struct {
	fs.File
	data []byte
	ops  []verifFileOp
}

type verifFileOp struct {
	truncate bool
	size     int64
	off      int64
	data     []byte
}

func (f *verifFile) Truncate(n int64) error {
	f.ops = append(f.ops, verifFileOp{truncate: true, size: n})
	f.data = verifApplyTruncate(f.data, n)
	return nil
}

func verifApplyTruncate(d []byte, n int64) []byte {
	if int(n) <= len(d) {
		return d[:n:n]
	}
	nd := make([]byte, n)
	copy(nd, d)
	return nd
}

func verifApplyWrite(d []byte, p []byte, off int64) []byte {
	end := int(off) + len(p)
	if end > len(d) {
		nd := make([]byte, end)
		copy(nd, d)
		d = nd
	}
	copy(d[off:], p)
	return d
}

func (f *verifFile) WriteAt(p []byte, off int64) (int, error) {
	cp := make([]byte, len(p))
	copy(cp, p)
	f.ops = append(f.ops, verifFileOp{off: off, data: cp})
	f.data = verifApplyWrite(f.data, p, off)
	return len(p), nil
}

func (f *verifFile) ReadAt(p []byte, off int64) (int, error) {
	if int(off) >= len(f.data) {
		return 0, io.EOF
	}
	n := copy(p, f.data[off:])
	if n < len(p) {
		return n, io.EOF
	}
	return n, nil
}

func (f *verifFile) Close() error { return nil }
func (f *verifFile) Sync() error  { return nil }

// verifDB wraps a symbolic index into a DB whose index file is a verifFile holding encode(0, pointers).
func verifDB(idx *index) (*DB, *verifFile) {
	vf := &verifFile{}
	pp := &pointerPersist{File: vf}
	vf.data = pp.encode(0, idx.mu.pointers)
	idx.indexPersist = &indexPersist{p: pp, idx: idx}
	idx.persistHead = len(idx.mu.pointers)
	db := &DB{idx: idx, closed: &atomic.Bool{}, resourceCount: &atomic.Int64{}}
	return db, vf
}
