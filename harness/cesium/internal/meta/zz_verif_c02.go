//go:build verif_harness

package meta

import (
	"context"
	"io"
	"os"

	"github.com/synnaxlabs/cesium/internal/channel"
	"github.com/synnaxlabs/x/errors"
	xfs "github.com/synnaxlabs/x/io/fs"
	"github.com/synnaxlabs/x/telem"
)

// ---- file-system model that logs every mutation (process-crash model: completed calls survive, the last write
// may be torn, nothing is reordered) ----

type verifOp struct {
	kind     string // create-trunc | write | rename | remove
	name, to string
	data     []byte
}

type verifFS struct {
	xfs.FS
	files map[string][]byte
	ops   []verifOp
}

type verifFile struct {
	xfs.File
	fs   *verifFS
	name string
	pos  int
}

type verifInfo struct {
	xfs.FileInfo
	name string
}

func (i verifInfo) Name() string { return i.name }

func (f *verifFS) Stat(name string) (xfs.FileInfo, error) { return verifInfo{name: "channel"}, nil }

func (f *verifFS) Exists(name string) (bool, error) { _, ok := f.files[name]; return ok, nil }

func (f *verifFS) Open(name string, flag int) (xfs.File, error) {
	_, ok := f.files[name]
	if !ok && flag&os.O_CREATE == 0 {
		return nil, errors.New("file does not exist")
	}
	if flag&os.O_CREATE != 0 && (!ok || flag&os.O_TRUNC != 0) {
		f.ops = append(f.ops, verifOp{kind: "create-trunc", name: name})
		f.files[name] = []byte{}
	}
	return &verifFile{fs: f, name: name}, nil
}

func (f *verifFS) Rename(from, to string) error {
	f.ops = append(f.ops, verifOp{kind: "rename", name: from, to: to})
	f.files[to] = f.files[from]
	delete(f.files, from)
	return nil
}

func (f *verifFS) Remove(name string) error {
	f.ops = append(f.ops, verifOp{kind: "remove", name: name})
	delete(f.files, name)
	return nil
}

func (fl *verifFile) Write(p []byte) (int, error) {
	cp := append([]byte{}, p...)
	fl.fs.ops = append(fl.fs.ops, verifOp{kind: "write", name: fl.name, data: cp})
	fl.fs.files[fl.name] = append(fl.fs.files[fl.name], cp...)
	return len(p), nil
}

func (fl *verifFile) Read(p []byte) (int, error) {
	d := fl.fs.files[fl.name]
	if fl.pos >= len(d) {
		return 0, io.EOF
	}
	n := copy(p, d[fl.pos:])
	fl.pos += n
	return n, nil
}

func (fl *verifFile) Close() error { return nil }

// ---- codec model: a channel is encoded as a fixed header, its name and a trailer, written in three calls; decoding
// accepts only a complete encoding ----

type verifCodec struct{}

func (verifCodec) Encode(context.Context, any) ([]byte, error) {
	return nil, errors.New("verif codec: Encode unsupported")
}
func (verifCodec) Decode(context.Context, []byte, any) error {
	return errors.New("verif codec: Decode unsupported")
}

func (verifCodec) EncodeStream(_ context.Context, w io.Writer, v any) error {
	ch := v.(channel.Channel)
	if _, err := w.Write([]byte{'{', byte(len(ch.Name))}); err != nil {
		return err
	}
	if _, err := w.Write([]byte(ch.Name)); err != nil {
		return err
	}
	_, err := w.Write([]byte{'}'})
	return err
}

func (verifCodec) DecodeStream(_ context.Context, r io.Reader, v any) error {
	b, err := io.ReadAll(r)
	if err != nil {
		return err
	}
	if len(b) < 3 || b[0] != '{' || len(b) != 3+int(b[1]) || b[len(b)-1] != '}' {
		return errors.New("verif codec: incomplete meta file")
	}
	ch := v.(*channel.Channel)
	*ch = channel.Channel{Key: 1, DataType: telem.Uint8T, Index: 2, Name: string(b[2 : 2+int(b[1])])}
	return nil
}

// verifSurvivor rebuilds the file system that survives a crash after `done` completed mutations, with the next
// write torn after `torn` bytes.
func verifSurvivor(initial map[string][]byte, ops []verifOp, done, torn int) *verifFS {
	s := &verifFS{files: map[string][]byte{}}
	for k, v := range initial {
		s.files[k] = append([]byte{}, v...)
	}
	apply := func(op verifOp, limit int) {
		switch op.kind {
		case "create-trunc":
			s.files[op.name] = []byte{}
		case "write":
			d := op.data
			if limit >= 0 && limit < len(d) {
				d = d[:limit]
			}
			s.files[op.name] = append(s.files[op.name], d...)
		case "rename":
			s.files[op.to] = s.files[op.name]
			delete(s.files, op.name)
		case "remove":
			delete(s.files, op.name)
		}
	}
	for i := 0; i < done && i < len(ops); i++ {
		apply(ops[i], -1)
	}
	if done < len(ops) && ops[done].kind == "write" && torn > 0 {
		apply(ops[done], torn)
	}
	return s
}

// VerifC02MetaReplace: rewriting a channel's meta file survives a crash at any point (and a torn last write):
// after the crash meta.json decodes to the old or to the new channel, never to anything else, and a leftover
// temporary file does not stop the channel from opening.
func VerifC02MetaReplace() {
	ctx := context.Background()
	oldName := verifString("old", verifLen("old.len", 1, 2))
	newName := verifString("new", verifLen("new.len", 1, 2))
	fsys := &verifFS{files: map[string][]byte{}}
	oldCh := channel.Channel{Key: 1, DataType: telem.Uint8T, Index: 2, Name: oldName}
	newCh := channel.Channel{Key: 1, DataType: telem.Uint8T, Index: 2, Name: newName}
	verifAssume(Create(ctx, fsys, verifCodec{}, oldCh) == nil)
	initial := map[string][]byte{}
	for k, v := range fsys.files {
		initial[k] = append([]byte{}, v...)
	}
	fsys.ops = nil
	verifAssert("create-no-error", Create(ctx, fsys, verifCodec{}, newCh) == nil)
	ops := fsys.ops
	done := verifLen("crash-after", 0, len(ops))
	torn := 0
	if done < len(ops) && ops[done].kind == "write" {
		torn = verifLen("torn", 0, len(ops[done].data))
	}
	surv := verifSurvivor(initial, ops, done, torn)
	got, err := Read(ctx, surv, verifCodec{})
	verifAssert("meta-readable-after-crash", err == nil)
	verifAssert("meta-is-old-or-new", err == nil && (got.Name == oldName || got.Name == newName))
	if done == len(ops) {
		verifAssert("meta-is-new-when-complete", err == nil && got.Name == newName)
	}
	// reopening after the crash works, leftover temp file or not
	reopened, oerr := Open(ctx, surv, channel.Channel{}, verifCodec{})
	verifAssert("open-after-crash", oerr == nil && (reopened.Name == oldName || reopened.Name == newName))
	verifReach("end")
}
