//go:build verif_harness

package cesium

import (
	"context"
	"strconv"
	"sync"

	xfs "github.com/synnaxlabs/x/io/fs"
	"github.com/synnaxlabs/x/telem"
)

// VerifC09CesiumRaceDriver (native, -race): channel-map traffic on one real cesium.DB from several goroutines.
func VerifC09CesiumRaceDriver() {
	if verifSymbolic() {
		return
	}
	ctx := context.Background()
	db, err := Open(ctx, "", WithFS(xfs.NewMem()))
	if err != nil {
		panic(err)
	}
	_ = db.CreateChannel(ctx, Channel{Key: 1, Name: "idx", DataType: telem.TimeStampT, IsIndex: true})
	_ = db.CreateChannel(ctx, Channel{Key: 2, Name: "data", DataType: telem.Int64T, Index: 1})
	var wg sync.WaitGroup
	wg.Add(4)
	go func() {
		defer wg.Done()
		for i := 0; i < 200; i++ {
			_, _ = db.RetrieveChannel(ctx, 2)
			_, _ = db.RetrieveChannels(ctx, 1, 2)
		}
	}()
	go func() {
		defer wg.Done()
		for i := 0; i < 60; i++ {
			k := ChannelKey(10 + i)
			_ = db.CreateChannel(ctx, Channel{Key: k, Name: "c" + strconv.Itoa(i), DataType: telem.Int64T, Index: 1})
			_ = db.DeleteChannel(k)
		}
	}()
	go func() {
		defer wg.Done()
		for i := 0; i < 100; i++ {
			_ = db.RenameChannel(ctx, 2, "data"+strconv.Itoa(i))
		}
	}()
	go func() {
		defer wg.Done()
		for i := 0; i < 60; i++ {
			_ = db.DeleteTimeRange(ctx, []ChannelKey{2}, telem.TimeRange{Start: 1, End: 5})
			w, err := db.OpenWriter(ctx, WriterConfig{Start: telem.TimeStamp(100 + i), Channels: []ChannelKey{2}})
			if err == nil {
				_ = w.Close()
			}
		}
	}()
	wg.Wait()
	_ = db.Close()
}
