//go:build verif_harness

package store

import (
	"context"

	"github.com/synnaxlabs/aspen/internal/node"
	xstore "github.com/synnaxlabs/x/store"
	"github.com/synnaxlabs/x/version"
)

//verif:assume VerifC12StoreAtomicUpdates: the second writer runs to completion at one chosen point of the first (just before the first publishes its new state) — the schedule in which the gossip tick goroutine and the transport handler interleave there; if the writer lock excludes that schedule the second writer is not run

// verifInterleavedObs runs a pending operation right before the next SetState of the wrapped observable.
type verifInterleavedObs struct {
	xstore.Observable[State, Change]
	pending func()
}

func (o *verifInterleavedObs) SetState(ctx context.Context, s State) {
	if p := o.pending; p != nil {
		o.pending = nil
		p()
	}
	o.Observable.SetState(ctx, s)
}

// VerifC12StoreAtomicUpdates: two writers of the membership store (Merge, SetNode, SetHost in any pairing) that
// touch different members never lose each other's update, whatever the interleaving: afterwards the store holds
// the more advanced record of both members. (The gossip tick and the transport handler write concurrently.)
func VerifC12StoreAtomicUpdates() {
	ctx := context.Background()
	c := New(ctx).(*core)
	obs := &verifInterleavedObs{Observable: c.Observable}
	c.Observable = obs
	hb := func(label string) version.Heartbeat {
		return version.Heartbeat{Version: uint32(verifUint8(label))}
	}
	host := node.Node{Key: 1, Heartbeat: hb("host.before")}
	peer := node.Node{Key: 2, Heartbeat: hb("peer.before")}
	c.SetHost(ctx, host)
	c.SetNode(ctx, peer)
	newHost, newPeer := host, peer
	newHost.Heartbeat.Version = host.Heartbeat.Version + 1
	newPeer.Heartbeat = hb("peer.after")
	verifAssume(newPeer.Heartbeat.Version > peer.Heartbeat.Version && host.Heartbeat.Version < 255)
	applied := false
	second := func() { // the gossip tick: the host advances its own heartbeat
		if applied {
			return
		}
		if !c.mu.TryLock() {
			return // the writer lock excludes this interleaving
		}
		c.mu.Unlock()
		applied = true
		c.SetNode(ctx, newHost)
	}
	ran := false
	obs.pending = func() { ran = true; second() }
	switch verifLen("first-writer", 0, 1) {
	case 0: // the transport handler merges a peer's newer record
		c.Merge(ctx, node.Group{2: newPeer})
	default:
		c.SetNode(ctx, newPeer)
	}
	if obs.pending != nil || !ran {
		return
	}
	second() // in case the lock excluded the interleaving, the tick happens afterwards
	verifReach("interleaved")
	nodes := c.CopyState().Nodes
	verifAssert("host-heartbeat-not-regressed", nodes[1].Heartbeat == newHost.Heartbeat)
	verifAssert("peer-heartbeat-not-regressed", nodes[2].Heartbeat == newPeer.Heartbeat)
	verifReach("end")
}
