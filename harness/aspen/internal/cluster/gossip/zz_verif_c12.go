//go:build verif_harness

package gossip

import (
	"context"

	"github.com/synnaxlabs/aspen/internal/cluster/store"
	"github.com/synnaxlabs/aspen/internal/node"
	"github.com/synnaxlabs/x/address"
	"github.com/synnaxlabs/x/version"
)

// verifTransport delivers a message to the peer's process handler directly (no network, no timing).
type verifTransport struct {
	TransportClient
	peer *Gossip
	n    int
}

func (t *verifTransport) Send(ctx context.Context, _ address.Address, msg Message) (Message, error) {
	t.n++
	return t.peer.process(ctx, msg)
}

const verifUniverse = 3

// verifView builds a store for host h whose view holds the host plus a symbolic subset of the other members with
// symbolic heartbeats (invariant M: map key == Node.Key, host present).
func verifView(label string, h node.Key) store.Store {
	ctx := context.Background()
	s := store.New(ctx)
	s.SetHost(ctx, node.Node{Key: h, Address: "a", Heartbeat: version.Heartbeat{Generation: uint32(verifUint8(label + ".host.gen")), Version: uint32(verifUint8(label + ".host.ver"))}})
	for k := node.Key(1); k <= verifUniverse; k++ {
		if k == h {
			continue
		}
		if verifBool(label + ".has") {
			s.SetNode(ctx, node.Node{Key: k, Address: "a", State: node.State(verifUint8(label+".state") & 3),
				Heartbeat: version.Heartbeat{Generation: uint32(verifUint8(label + ".gen")), Version: uint32(verifUint8(label + ".ver"))}})
		}
	}
	return s
}

func verifNodes(s store.Store) node.Group { return s.CopyState().Nodes }

// VerifC12Exchange: one full sync/ack/ack2 exchange between two nodes never moves a view backwards and leaves
// both sides with the more advanced record of every member either of them knew.
func VerifC12Exchange() {
	ctx := context.Background()
	sa, sb := verifView("A", 1), verifView("B", 2)
	// each node's record of itself is at least as advanced as anyone else's copy of it (it is the only writer)
	beforeA, beforeB := verifNodes(sa), verifNodes(sb)
	if n, ok := beforeB[1]; ok {
		verifAssume(!n.Heartbeat.OlderThan(beforeA[1].Heartbeat))
		if n.Heartbeat == beforeA[1].Heartbeat {
			verifAssume(n == beforeA[1])
		}
	}
	if n, ok := beforeA[2]; ok {
		verifAssume(!n.Heartbeat.OlderThan(beforeB[2].Heartbeat))
		if n.Heartbeat == beforeB[2].Heartbeat {
			verifAssume(n == beforeB[2])
		}
	}
	// equal heartbeats describe the same record (a heartbeat is bumped on every state change)
	if x, ok := beforeA[3]; ok {
		if y, ok2 := beforeB[3]; ok2 && x.Heartbeat == y.Heartbeat {
			verifAssume(x == y)
		}
	}
	gb := &Gossip{Config: Config{Store: sb}}
	ga := &Gossip{Config: Config{Store: sa, TransportClient: &verifTransport{peer: gb}}}
	err := ga.GossipOnceWith(ctx, "b")
	verifAssert("exchange-no-error", err == nil)
	afterA, afterB := verifNodes(sa), verifNodes(sb)
	for k := node.Key(1); k <= verifUniverse; k++ {
		ba, okBA := beforeA[k]
		bb, okBB := beforeB[k]
		aa, okAA := afterA[k]
		ab, okAB := afterB[k]
		if okBA {
			verifAssert("monotone-A", okAA && !ba.Heartbeat.OlderThan(aa.Heartbeat))
		}
		if okBB {
			verifAssert("monotone-B", okAB && !bb.Heartbeat.OlderThan(ab.Heartbeat))
		}
		if okBA || okBB {
			best := ba
			if !okBA || (okBB && bb.Heartbeat.OlderThan(ba.Heartbeat)) {
				best = bb
			}
			verifAssert("converged-A", okAA && aa == best)
			// (a record still at its zero heartbeat that the peer lacks must travel too: the peer asks for it
			// with a zero-heartbeat placeholder, which the record can only match, not beat)
			verifAssert("converged-B", okAB && ab == best)
		} else {
			verifAssert("no-invention", !okAA && !okAB)
		}
	}
	verifReach("end")
}

// VerifC12BothDirections: after A->B followed by B->A (no further changes) both views are identical and complete.
func VerifC12BothDirections() {
	ctx := context.Background()
	sa, sb := verifView("A", 1), verifView("B", 2)
	beforeA, beforeB := verifNodes(sa), verifNodes(sb)
	if n, ok := beforeB[1]; ok {
		verifAssume(!n.Heartbeat.OlderThan(beforeA[1].Heartbeat))
		if n.Heartbeat == beforeA[1].Heartbeat {
			verifAssume(n == beforeA[1])
		}
	}
	if n, ok := beforeA[2]; ok {
		verifAssume(!n.Heartbeat.OlderThan(beforeB[2].Heartbeat))
		if n.Heartbeat == beforeB[2].Heartbeat {
			verifAssume(n == beforeB[2])
		}
	}
	if x, ok := beforeA[3]; ok {
		if y, ok2 := beforeB[3]; ok2 && x.Heartbeat == y.Heartbeat {
			verifAssume(x == y)
		}
	}
	ga := &Gossip{Config: Config{Store: sa}}
	gb := &Gossip{Config: Config{Store: sb}}
	ga.TransportClient = &verifTransport{peer: gb}
	gb.TransportClient = &verifTransport{peer: ga}
	verifAssert("ab-no-error", ga.GossipOnceWith(ctx, "b") == nil)
	verifAssert("ba-no-error", gb.GossipOnceWith(ctx, "a") == nil)
	afterA, afterB := verifNodes(sa), verifNodes(sb)
	verifAssert("same-size", len(afterA) == len(afterB))
	for k := node.Key(1); k <= verifUniverse; k++ {
		ba, okBA := beforeA[k]
		bb, okBB := beforeB[k]
		aa, okAA := afterA[k]
		ab, okAB := afterB[k]
		if okBA || okBB {
			best := ba
			if !okBA || (okBB && bb.Heartbeat.OlderThan(ba.Heartbeat)) {
				best = bb
			}
			verifAssert("both-converged-A", okAA && aa == best)
			verifAssert("both-converged-B", okAB && ab == best)
		} else {
			verifAssert("both-no-invention", !okAA && !okAB)
		}
	}
	verifReach("end")
}
