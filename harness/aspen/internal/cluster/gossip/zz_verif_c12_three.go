//go:build verif_harness

package gossip

import (
	"context"

	"github.com/synnaxlabs/aspen/internal/cluster/store"
	"github.com/synnaxlabs/aspen/internal/node"
	"github.com/synnaxlabs/x/address"
	"github.com/synnaxlabs/x/version"
)

// verifRouter delivers a message to the process handler of the node that owns the address.
type verifRouter struct {
	TransportClient
	peers map[address.Address]*Gossip
}

func (t *verifRouter) Send(ctx context.Context, addr address.Address, msg Message) (Message, error) {
	return t.peers[addr].process(ctx, msg)
}

var verifAddr = [4]address.Address{"", "n1", "n2", "n3"}

// verifView3 is verifView with every initial record in generation 0 (new generations come from restart steps)
// and a two-valued member state: the exchange logic only ever compares heartbeats and copies records.
func verifView3(label string, h node.Key) store.Store {
	ctx := context.Background()
	s := store.New(ctx)
	s.SetHost(ctx, node.Node{Key: h, Address: "a", Heartbeat: version.Heartbeat{Version: uint32(verifUint8(label + ".host.ver"))}})
	for k := node.Key(1); k <= verifUniverse; k++ {
		if k == h {
			continue
		}
		if verifBool(label + ".has") {
			s.SetNode(ctx, node.Node{Key: k, Address: "a", State: node.State(verifUint8(label+".state") & 1),
				Heartbeat: version.Heartbeat{Version: uint32(verifUint8(label + ".ver"))}})
		}
	}
	return s
}

// verifNotAhead: the copy c of member k held by someone else is not more advanced than the owner's record, and
// equal heartbeats mean equal records (only the owner writes its record, bumping the heartbeat every time).
func verifNotAhead(c, own node.Node) {
	verifAssume(!c.Heartbeat.OlderThan(own.Heartbeat))
	if c.Heartbeat == own.Heartbeat {
		verifAssume(c == own)
	}
}

// VerifC12ThreeNodes: three nodes with arbitrary (mutually consistent) partial views run an arbitrary sequence of
// pairwise exchanges interleaved with heartbeat ticks and restarts; no exchange moves any view backwards, and
// after a closing round in which every pair has exchanged once (either side initiating, pairs in any order,
// no further changes) all three views are identical, complete, and hold every owner's own latest record.
func VerifC12ThreeNodes() {
	ctx := context.Background()
	var st [4]store.Store
	var gs [4]*Gossip
	rt := &verifRouter{peers: map[address.Address]*Gossip{}}
	for h := node.Key(1); h <= 3; h++ {
		st[h] = verifView3([4]string{"", "N1", "N2", "N3"}[h], h)
	}
	for k := node.Key(1); k <= 3; k++ {
		own := verifNodes(st[k])[k]
		var copies []node.Node
		for j := node.Key(1); j <= 3; j++ {
			if j == k {
				continue
			}
			if c, ok := verifNodes(st[j])[k]; ok {
				verifNotAhead(c, own)
				copies = append(copies, c)
			}
		}
		if len(copies) == 2 && copies[0].Heartbeat == copies[1].Heartbeat {
			verifAssume(copies[0] == copies[1])
		}
	}
	for h := node.Key(1); h <= 3; h++ {
		gs[h] = &Gossip{Config: Config{Store: st[h], TransportClient: rt}}
		rt.peers[verifAddr[h]] = gs[h]
	}
	pairs := [6][2]node.Key{{1, 2}, {2, 1}, {1, 3}, {3, 1}, {2, 3}, {3, 2}}
	monotone := true
	exchange := func(a, b node.Key) bool {
		var before [4]node.Group
		for h := node.Key(1); h <= 3; h++ {
			before[h] = verifNodes(st[h])
		}
		err := gs[a].GossipOnceWith(ctx, verifAddr[b])
		for h := node.Key(1); h <= 3; h++ {
			after := verifNodes(st[h])
			for k, was := range before[h] {
				now, ok := after[k]
				// never forgotten, never older; the same heartbeat still means the same record
				if !ok || was.Heartbeat.OlderThan(now.Heartbeat) || (was.Heartbeat == now.Heartbeat && was != now) {
					monotone = false
				}
			}
		}
		return err == nil
	}
	steps := verifLen("steps", 0, verifParam("steps", 2))
	okAll := true
	for i := 0; i < steps; i++ {
		op := verifLen("op", 0, 5+verifParam("ticks", 6))
		switch {
		case op < 6:
			okAll = exchange(pairs[op][0], pairs[op][1]) && okAll
		case op < 9: // heartbeat tick of node op-5
			gs[op-5].incrementHostHeartbeat(ctx)
		default: // restart of node op-8: a new generation
			h := gs[op-8].Store.GetHost()
			h.Heartbeat = h.Heartbeat.Restart()
			gs[op-8].Store.SetNode(ctx, h)
		}
	}
	// closing round: every pair, both directions, pairs in any order
	order := verifLen("closing-order", 0, verifParam("orders", 5))
	perm := [6][3]int{{0, 1, 2}, {0, 2, 1}, {1, 0, 2}, {1, 2, 0}, {2, 0, 1}, {2, 1, 0}}[order]
	for _, p := range perm {
		// one exchange per pair is enough (sync/ack/ack2 moves records both ways); which side initiates is arbitrary
		if verifBool("closing-initiator-is-higher") {
			okAll = exchange(pairs[2*p+1][0], pairs[2*p+1][1]) && okAll
		} else {
			okAll = exchange(pairs[2*p][0], pairs[2*p][1]) && okAll
		}
	}
	verifAssert("three-exchanges-no-error", okAll)
	verifAssert("three-monotone", monotone)
	v1, v2, v3 := verifNodes(st[1]), verifNodes(st[2]), verifNodes(st[3])
	same, complete, latest := len(v1) == 3 && len(v2) == 3 && len(v3) == 3, true, true
	for k := node.Key(1); k <= 3; k++ {
		a, okA := v1[k]
		b, okB := v2[k]
		c, okC := v3[k]
		if !okA || !okB || !okC {
			complete = false
			continue
		}
		if a != b || b != c {
			same = false
		}
		if own := verifNodes(st[k])[k]; a != own {
			latest = false
		}
	}
	verifAssert("three-complete", complete)
	verifAssert("three-identical", same)
	verifAssert("three-hold-owners-latest", latest)
	verifReach("end")
}
