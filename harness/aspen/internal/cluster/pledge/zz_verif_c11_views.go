//go:build verif_harness

package pledge

import (
	"context"
	"time"

	"github.com/synnaxlabs/aspen/internal/node"
	"github.com/synnaxlabs/x/address"
	"github.com/synnaxlabs/x/errors"
)

// verifMemberTransport delivers a juror request to the real juror of the addressed member.
type verifMemberTransport struct {
	TransportClient
	jurors map[address.Address]*juror
}

func (t *verifMemberTransport) Send(ctx context.Context, addr address.Address, req Request) (Response, error) {
	j, ok := t.jurors[addr]
	if !ok {
		return Response{}, errors.New("unreachable")
	}
	return Response{}, j.verdict(ctx, req)
}

// VerifC11TwoJoins: two nodes join a two-member cluster one after the other, through different members, before
// the first joiner has been gossiped to anyone. Member 2 knows both members; member 1's view is either complete
// or stale (it never learned of member 2: the acknowledgements of its gossip exchanges were lost); between the
// two joins any subset of the members may restart. Each join runs the real responsible.propose of the
// coordinating member — snapshot of its own view, the key above that view, the real buildQuorum (the juries are
// the coordinators' whole views, so the random choice has one outcome), the real consultQuorum — against the real
// juror.verdict of every jury member. The two joiners must receive different keys, and neither the key of an
// existing member.
func VerifC11TwoJoins() {
	ctx := context.Background()
	member := func(k node.Key) node.Node {
		return node.Node{Key: k, Address: address.Address([]string{"", "a", "b"}[k]), State: node.StateHealthy}
	}
	full := node.Group{1: member(1), 2: member(2)}
	view1 := full
	stale := verifBool("member-1-never-learned-of-member-2")
	if stale {
		view1 = node.Group{1: member(1)}
	}
	views := map[node.Key]node.Group{1: view1, 2: full}
	tr := &verifMemberTransport{jurors: map[address.Address]*juror{}}
	arbitrate := func(k node.Key) {
		// what pledge.arbitrate does when a member (re)registers its handlers: a fresh juror
		v := views[k]
		tr.jurors[member(k).Address] = &juror{Config: Config{Candidates: func() node.Group { return v }}}
	}
	arbitrate(1)
	arbitrate(2)
	join := func(via node.Key) (node.Key, error) {
		v := views[via]
		r := &responsible{Config: Config{Candidates: func() node.Group { return v }, MaxProposals: 2,
			TransportClient: tr, RequestTimeout: 50 * time.Millisecond}}
		res, err := r.propose(ctx)
		return res.Key, err
	}
	k1, err1 := join(2)
	verifAssert("first-join-admitted", err1 == nil && k1 == 3)
	restart1, restart2 := verifBool("member-1-restarts"), verifBool("member-2-restarts")
	if restart1 {
		arbitrate(1)
	}
	if restart2 {
		arbitrate(2)
	}
	k2, err2 := join(1)
	verifObserveBool("second-join-admitted", err2 == nil)
	if err2 == nil {
		verifObserve("second-key", int64(k2))
		finding, known := "", false
		switch {
		case stale:
			finding, known = "C11-quorum-of-a-stale-view", true
		case restart1 && restart2:
			finding, known = "C11-juror-approvals-lost-on-restart", true
		}
		verifAssertKnown("two-joiners-get-different-keys", k2 != k1, finding, known)
		verifAssertKnown("a-joiner-never-gets-the-key-of-a-member", k2 != 1 && k2 != 2, finding, known)
	}
	verifReach("end")
}
