//go:build verif_harness

package pledge

import (
	"context"
	"sync"
	"time"

	"github.com/synnaxlabs/aspen/internal/node"
	"github.com/synnaxlabs/x/address"
	"github.com/synnaxlabs/x/errors"
)


// verifGroup builds a candidate snapshot of n nodes with distinct symbolic keys (1..4095) and symbolic states.
func verifGroup(label string, n int) node.Group {
	g := make(node.Group)
	keys := make([]node.Key, n)
	for i := 0; i < n; i++ {
		k := node.Key(verifUint16(label + ".key"))
		verifAssume(k >= 1 && k < 4095)
		for j := 0; j < i; j++ {
			verifAssume(keys[j] != k)
		}
		keys[i] = k
		g[k] = node.Node{Key: k, Address: "n", State: node.State(verifUint8(label+".state") & 3)}
	}
	return g
}

func verifMaxKey(g node.Group) node.Key {
	var m node.Key
	for k := range g {
		if k > m {
			m = k
		}
	}
	return m
}

// VerifC11Juror: a juror approves a key at most once and only above every key it knows.
func VerifC11Juror() {
	n := verifLen("n", 0, verifParam("n", 2))
	g := verifGroup("cand", n)
	j := &juror{Config: Config{Candidates: func() node.Group { return g }}}
	na := verifLen("approvals", 0, verifParam("a", 2))
	for i := 0; i < na; i++ {
		j.approvals = append(j.approvals, node.Key(verifUint16("approved")))
	}
	before := append([]node.Key{}, j.approvals...)
	key := node.Key(verifUint16("key"))
	verifAssume(key != 0)
	ctx := context.Background()
	err := j.verdict(ctx, Request{Key: key})
	seen := false
	for _, k := range before {
		if k == key {
			seen = true
		}
	}
	verifObserveBool("approved", err == nil)
	if err == nil {
		verifAssert("approve-only-fresh", !seen)
		verifAssert("approve-only-above-known", key > verifMaxKey(g))
	} else {
		verifAssert("reject-is-proposal-rejected", errors.Is(err, errProposalRejected))
	}
	verifAssert("approve-iff", (err == nil) == (!seen && key > verifMaxKey(g)))
	found := false
	for _, k := range j.approvals {
		if k == key {
			found = true
		}
	}
	verifAssert("remembered", found)
	// a second request for the same key is never approved, whoever sends it
	err2 := j.verdict(ctx, Request{Key: key})
	verifAssert("never-twice", err2 != nil)
	verifReach("end")
}

// VerifC11Quorum: buildQuorum returns a jury of exactly floor(active/2)+1 healthy active candidates, or refuses.
func VerifC11Quorum() {
	n := verifLen("n", 0, verifParam("n", 4))
	g := verifGroup("cand", n)
	r := &responsible{candidateSnapshot: g}
	q, err := r.buildQuorum()
	active, healthy := 0, 0
	for _, nd := range g {
		if nd.State != node.StateLeft {
			active++
			if nd.State == node.StateHealthy {
				healthy++
			}
		}
	}
	size := active/2 + 1
	verifAssert("quorum-err-iff-too-few-healthy", (err != nil) == (healthy < size))
	if err == nil {
		verifAssert("quorum-size", len(q) == size)
		verifAssert("quorum-majority", 2*len(q) > active)
		for k, nd := range q {
			orig, ok := g[k]
			verifAssert("quorum-member-is-healthy-candidate", ok && orig == nd && nd.State == node.StateHealthy)
		}
	} else {
		verifAssert("quorum-err-kind", errors.Is(err, errQuorumUnreachable))
	}
	verifReach("end")
}

// VerifC11Intersection: any two juries drawn from the same snapshot share a member (sizes come from buildQuorum).
func VerifC11Intersection() {
	n := verifLen("n", 1, verifParam("n", 6))
	g := make(node.Group)
	for i := 1; i <= n; i++ {
		g[node.Key(i)] = node.Node{Key: node.Key(i)}
	}
	r := &responsible{candidateSnapshot: g}
	q, err := r.buildQuorum()
	verifAssume(err == nil)
	size := len(q)
	m1, m2 := verifUint8("jury1"), verifUint8("jury2")
	pc1, pc2 := 0, 0
	for i := 0; i < 8; i++ { // branch-free popcount keeps this a single solver query per n
		pc1 += int((m1 >> i) & 1)
		pc2 += int((m2 >> i) & 1)
	}
	universe := uint8(1<<n - 1)
	verifAssume(m1&^universe == 0 && m2&^universe == 0)
	verifAssume(pc1 == size && pc2 == size)
	verifAssert("juries-intersect", m1&m2 != 0)
	verifReach("end")
}

// verifJuryTransport answers every juror request for one key with the same arbitrary verdict (the mix of
// verdicts inside one jury is covered by VerifC11Consult); it records the keys it was consulted about.
type verifJuryTransport struct {
	TransportClient
	mu      sync.Mutex
	log     []node.Key
	answers map[node.Key]bool
}

func (t *verifJuryTransport) Send(_ context.Context, _ address.Address, req Request) (Response, error) {
	t.mu.Lock()
	defer t.mu.Unlock()
	ok, seen := t.answers[req.Key]
	if !seen {
		ok = verifBool("jury-approves")
		t.answers[req.Key] = ok
		t.log = append(t.log, req.Key)
	}
	if ok {
		return Response{}, nil
	}
	return Response{}, errProposalRejected
}

// VerifC11Propose: the coordinator returns a key only when the jury approved exactly that key; proposed keys
// strictly increase across retries and start above every key in the snapshot.
func VerifC11Propose() {
	n := verifLen("n", 1, verifParam("n", 3))
	g := verifGroup("cand", n)
	for k, nd := range g { // a quorum must be reachable: every candidate healthy
		nd.State = node.StateHealthy
		g[k] = nd
	}
	tr := &verifJuryTransport{answers: map[node.Key]bool{}}
	mp := verifLen("maxProposals", 1, 3)
	r := &responsible{Config: Config{Candidates: func() node.Group { return g }, MaxProposals: mp, TransportClient: tr}}
	res, err := r.propose(context.Background())
	verifConsultLog := tr.log
	maxKey := verifMaxKey(g)
	for i, k := range verifConsultLog {
		verifAssert("proposal-above-snapshot", k > maxKey)
		if i > 0 {
			verifAssert("proposals-strictly-increase", k > verifConsultLog[i-1])
		}
	}
	// a key is handed out exactly when the jury approved the last proposal
	lastApproved := len(verifConsultLog) > 0 && tr.answers[verifConsultLog[len(verifConsultLog)-1]]
	verifAssert("propose-succeeds-iff-last-proposal-approved", (err == nil) == lastApproved)
	if err == nil {
		verifAssert("returned-key-was-consulted-last", len(verifConsultLog) > 0 && verifConsultLog[len(verifConsultLog)-1] == res.Key)
		verifAssert("returned-key-above-snapshot", res.Key > maxKey)
	} else {
		verifAssert("failure-after-bounded-retries", len(verifConsultLog) <= mp)
	}
	verifReach("end")
}

type verifJurorTransport struct {
	TransportClient
	mu      sync.Mutex
	answers map[address.Address]error
	hangs   map[address.Address]bool
	// turn[addr] is closed when the juror before addr has answered, done[addr] when addr has: natively the
	// jurors answer in the order the engine's synchronous errgroup model runs them, so that a counterexample
	// schedule found by the solver is the schedule the replay takes.
	turn, done map[address.Address]chan struct{}
	calls      int
}

func (t *verifJurorTransport) Send(ctx context.Context, addr address.Address, _ Request) (Response, error) {
	<-t.turn[addr]
	defer close(t.done[addr])
	t.mu.Lock()
	t.calls++
	hang := t.hangs[addr]
	t.mu.Unlock()
	if hang { // a juror that never answers: the request ends when its context does
		<-ctx.Done()
		return Response{}, ctx.Err()
	}
	return Response{}, t.answers[addr]
}

// VerifC11Consult: the jury's answer is nil exactly when every juror request returned nil (errgroup.Go is run
// synchronously by the engine; the closures share nothing but cancel()).
func VerifC11Consult() {
	n := verifLen("jurors", 1, verifParam("jurors", 3))
	q := make(node.Group)
	tr := &verifJurorTransport{
		answers: map[address.Address]error{}, hangs: map[address.Address]bool{},
		turn: map[address.Address]chan struct{}{}, done: map[address.Address]chan struct{}{},
	}
	allOK := true
	prev := make(chan struct{})
	close(prev)
	for i := 1; i <= n; i++ {
		addr := address.Address([]string{"", "a", "b", "c"}[i])
		tr.turn[addr], tr.done[addr] = prev, make(chan struct{})
		prev = tr.done[addr]
		q[node.Key(i)] = node.Node{Key: node.Key(i), Address: addr}
		switch verifUint8("answer") % 4 {
		case 1:
			tr.answers[addr] = errProposalRejected
			allOK = false
		case 2:
			tr.answers[addr] = errors.New("unreachable")
			allOK = false
		case 3:
			tr.hangs[addr] = true // times out
			allOK = false
		}
	}
	r := &responsible{Config: Config{TransportClient: tr, RequestTimeout: 30 * time.Millisecond}}
	err := r.consultQuorum(context.Background(), 9, q)
	verifAssert("consult-nil-iff-all-approve", (err == nil) == allOK)
	verifAssert("consult-asked-every-juror", tr.calls == n)
	verifReach("end")
}
