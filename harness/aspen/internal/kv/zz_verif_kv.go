//go:build verif_harness

package kv

import (
	"context"
	"io"

	"github.com/synnaxlabs/aspen/internal/node"
	"github.com/synnaxlabs/x/address"
	"github.com/synnaxlabs/x/change"
	"github.com/synnaxlabs/x/errors"
	xkv "github.com/synnaxlabs/x/kv"
	"github.com/synnaxlabs/x/query"
	"github.com/synnaxlabs/x/version"
)

//verif:assume value codec modelled by an injective fixed-layout codec (verifCodec) in place of msgpack/gob

// ---- harness key-value store implementing xkv.DB / xkv.Tx (bounded, deterministic) ----

type verifKVEntry struct {
	k, v    []byte
	deleted bool
}

type verifKV struct {
	xkv.DB
	entries []verifKVEntry
	commits int
}

type verifTx struct {
	xkv.Tx
	db      *verifKV
	pending []verifKVEntry
	done    bool
}

type verifCloser struct{}

func (verifCloser) Close() error { return nil }

func verifBytesEq(a, b []byte) bool {
	if len(a) != len(b) {
		return false
	}
	for i := range a {
		if a[i] != b[i] {
			return false
		}
	}
	return true
}

func (kv *verifKV) lookup(key []byte) ([]byte, bool) {
	for i := len(kv.entries) - 1; i >= 0; i-- {
		if verifBytesEq(kv.entries[i].k, key) {
			if kv.entries[i].deleted {
				return nil, false
			}
			return kv.entries[i].v, true
		}
	}
	return nil, false
}

func (kv *verifKV) put(e verifKVEntry) {
	for i := range kv.entries {
		if verifBytesEq(kv.entries[i].k, e.k) {
			kv.entries[i] = e
			return
		}
	}
	kv.entries = append(kv.entries, e)
}

func (kv *verifKV) OpenTx() xkv.Tx { return &verifTx{db: kv} }

func (kv *verifKV) Get(_ context.Context, key []byte, _ ...any) ([]byte, io.Closer, error) {
	v, ok := kv.lookup(key)
	if !ok {
		return nil, nil, query.ErrNotFound
	}
	return v, verifCloser{}, nil
}

func (kv *verifKV) Set(_ context.Context, key, value []byte, _ ...any) error {
	kv.put(verifKVEntry{k: append([]byte{}, key...), v: append([]byte{}, value...)})
	return nil
}

func (kv *verifKV) Delete(_ context.Context, key []byte, _ ...any) error {
	kv.put(verifKVEntry{k: append([]byte{}, key...), deleted: true})
	return nil
}

func (tx *verifTx) Get(ctx context.Context, key []byte, _ ...any) ([]byte, io.Closer, error) {
	for i := len(tx.pending) - 1; i >= 0; i-- {
		if verifBytesEq(tx.pending[i].k, key) {
			if tx.pending[i].deleted {
				return nil, nil, query.ErrNotFound
			}
			return tx.pending[i].v, verifCloser{}, nil
		}
	}
	return tx.db.Get(ctx, key)
}

func (tx *verifTx) Set(_ context.Context, key, value []byte, _ ...any) error {
	tx.pending = append(tx.pending, verifKVEntry{k: append([]byte{}, key...), v: append([]byte{}, value...)})
	return nil
}

func (tx *verifTx) Delete(_ context.Context, key []byte, _ ...any) error {
	tx.pending = append(tx.pending, verifKVEntry{k: append([]byte{}, key...), deleted: true})
	return nil
}

func (tx *verifTx) Commit(_ context.Context, _ ...any) error {
	for _, e := range tx.pending {
		tx.db.put(e)
	}
	tx.pending = nil
	tx.db.commits++
	return nil
}

func (tx *verifTx) Close() error { tx.pending = nil; return nil }

// ---- injective digest codec ----

type verifCodec struct{}

func (verifCodec) Encode(_ context.Context, v any) ([]byte, error) {
	d, ok := v.(Digest)
	if !ok {
		return nil, errors.New("verifCodec: unsupported type")
	}
	b := []byte{byte(len(d.Key))}
	b = append(b, d.Key...)
	for i := 0; i < 8; i++ {
		b = append(b, byte(uint64(d.Version)>>(8*i)))
	}
	b = append(b, byte(d.Leaseholder), byte(d.Leaseholder>>8), byte(d.Variant))
	return b, nil
}

func (verifCodec) Decode(_ context.Context, b []byte, v any) error {
	d, ok := v.(*Digest)
	if !ok || len(b) < 1 || len(b) != 1+int(b[0])+11 {
		return errors.New("verifCodec: malformed")
	}
	n := int(b[0])
	d.Key = append([]byte{}, b[1:1+n]...)
	var ver uint64
	for i := 0; i < 8; i++ {
		ver |= uint64(b[1+n+i]) << (8 * i)
	}
	d.Version = version.Counter(ver)
	d.Leaseholder = node.Key(uint16(b[1+n+8]) | uint16(b[1+n+9])<<8)
	d.Variant = change.Variant(b[1+n+10])
	return nil
}

func (verifCodec) DecodeStream(_ context.Context, r io.Reader, v any) error {
	return errors.New("verifCodec: DecodeStream unsupported")
}

func (verifCodec) EncodeStream(_ context.Context, w io.Writer, v any) error {
	return errors.New("verifCodec: EncodeStream unsupported")
}

// ---- symbolic builders ----

func verifOp(label string) Operation {
	op := Operation{Version: version.Counter(verifInt64(label + ".version")), Leaseholder: node.Key(verifUint16(label + ".lease"))}
	op.Key = verifBytes(label+".key", 1)
	if verifBool(label + ".delete") {
		op.Variant = change.VariantDelete
	} else {
		op.Variant = change.VariantSet
		op.Value = verifBytes(label+".value", 1)
	}
	return op
}

// verifStore builds a store holding m keys, each with value (or tombstone) and digest written by the same
// operation (invariant S of DESIGN 4.0).
func verifStore(m int) (*verifKV, []Operation) {
	codec = verifCodec{}
	kv := &verifKV{}
	ops := make([]Operation, m)
	ctx := context.Background()
	for i := 0; i < m; i++ {
		op := verifOp("pre")
		for j := 0; j < i; j++ {
			verifAssume(!verifBytesEq(ops[j].Key, op.Key))
		}
		ops[i] = op
		_ = op.apply(ctx, kv)
		_ = op.Digest().apply(ctx, kv)
	}
	return kv, ops
}

func (kv *verifKV) clone() *verifKV {
	c := &verifKV{entries: make([]verifKVEntry, len(kv.entries))}
	copy(c.entries, kv.entries)
	return c
}

// verifHStoresEqual: same visible key/value content.
func verifHStoresEqual(a, b *verifKV) bool {
	for _, e := range a.entries {
		va, oka := a.lookup(e.k)
		vb, okb := b.lookup(e.k)
		if oka != okb || (oka && !verifBytesEq(va, vb)) {
			return false
		}
	}
	for _, e := range b.entries {
		va, oka := a.lookup(e.k)
		vb, okb := b.lookup(e.k)
		if oka != okb || (oka && !verifBytesEq(va, vb)) {
			return false
		}
	}
	return true
}

func verifFP(kv *verifKV) *filterPersist {
	codec = verifCodec{}
	return &filterPersist{db: kv, acceptedTo: "accepted", rejectedTo: "rejected"}
}

func verifIngress(fp *filterPersist, ops ...Operation) (acc, rej []Operation) {
	out := map[address.Address]TxRequest{}
	_ = fp._switch(context.Background(), TxRequest{Context: context.Background(), Operations: ops}, out)
	return out["accepted"].Operations, out["rejected"].Operations
}

// verifHSupersedes: strict order on (version, leaseholder).
func verifHSupersedes(a, b Operation) bool {
	return a.Version > b.Version || (a.Version == b.Version && a.Leaseholder > b.Leaseholder)
}

// VerifC06Commute: two single-operation requests applied in either order leave identical stores; redelivery is a
// no-op (idempotence); the stored digest never regresses (monotone).
func VerifC06Commute() {
	m := verifLen("m", 0, verifParam("m", 1))
	kv1, pre := verifStore(m)
	kv2 := kv1.clone()
	a, b := verifOp("a"), verifOp("b")
	// distinct operations on one key carry distinct (version, leaseholder) pairs: versions are unique per
	// leaseholder by construction (C06.K3)
	if verifBytesEq(a.Key, b.Key) {
		verifAssume(a.Version != b.Version || a.Leaseholder != b.Leaseholder)
	}
	for _, p := range pre {
		if verifBytesEq(a.Key, p.Key) {
			verifAssume(a.Version != p.Version || a.Leaseholder != p.Leaseholder)
		}
		if verifBytesEq(b.Key, p.Key) {
			verifAssume(b.Version != p.Version || b.Leaseholder != p.Leaseholder)
		}
	}
	fp1, fp2 := verifFP(kv1), verifFP(kv2)
	accA1, rejA1 := verifIngress(fp1, a)
	accB1, _ := verifIngress(fp1, b)
	accB2, _ := verifIngress(fp2, b)
	accA2, _ := verifIngress(fp2, a)
	_ = accB1
	_ = accB2
	_ = accA2
	verifAssert("commute-same-store", verifHStoresEqual(kv1, kv2))
	// accepted iff it supersedes what was stored for its key
	var prev *Operation
	for i := range pre {
		if verifBytesEq(pre[i].Key, a.Key) {
			prev = &pre[i]
		}
	}
	wantAcc := prev == nil || verifHSupersedes(a, *prev)
	verifAssert("accept-iff-supersedes", (len(accA1) == 1) == wantAcc)
	verifAssert("accepted-or-rejected", len(accA1)+len(rejA1) == 1)
	// idempotence: delivering a and b again changes nothing and both are rejected
	snap := kv1.clone()
	acc3, rej3 := verifIngress(fp1, a, b)
	verifAssert("redelivery-rejected", len(acc3) == 0 && len(rej3) == 2)
	verifAssert("redelivery-no-change", verifHStoresEqual(kv1, snap))
	// final digest of a's key is the maximum of everything delivered for that key
	dig, err := getDigestFromKV(context.Background(), kv1, a.Key)
	verifAssert("digest-present", err == nil)
	best := a
	if verifBytesEq(b.Key, a.Key) && verifHSupersedes(b, best) {
		best = b
	}
	if prev != nil && verifHSupersedes(*prev, best) {
		best = *prev
	}
	verifAssert("digest-is-max", dig.Version == best.Version && dig.Leaseholder == best.Leaseholder && dig.Variant == best.Variant)
	v, ok := kv1.lookup(a.Key)
	if best.Variant == change.VariantDelete {
		verifAssert("value-matches-digest-delete", !ok)
	} else {
		verifAssert("value-matches-digest-set", ok && verifBytesEq(v, best.Value))
	}
	verifReach("end")
}

// VerifC06Assign: the version assigner hands out latest+1..latest+n, strictly above everything assigned before,
// and persists the new high-water mark.
func VerifC06Assign() {
	kv := &verifKV{}
	ctx := context.Background()
	start := verifInt64("start")
	verifAssume(start >= 0 && start < 1<<60)
	c, err := xkv.OpenCounter(ctx, kv, []byte(versionCounterKey))
	verifAssume(err == nil)
	_, _ = c.Add(ctx, start)
	va := &versionAssigner{counter: c}
	n1 := verifLen("n1", 0, 2)
	n2 := verifLen("n2", 0, 2)
	r1 := TxRequest{Operations: make([]Operation, n1)}
	r2 := TxRequest{Operations: make([]Operation, n2)}
	o1, ok1, _ := va.assign(ctx, r1)
	o2, ok2, _ := va.assign(ctx, r2)
	verifAssert("assign-ok", ok1 && ok2)
	for i := range o1.Operations {
		verifAssert("assign-first-batch", int64(o1.Operations[i].Version) == start+int64(i)+1)
	}
	for i := range o2.Operations {
		verifAssert("assign-second-batch-above-first", int64(o2.Operations[i].Version) == start+int64(n1)+int64(i)+1)
	}
	verifAssert("assign-counter", c.Value() == start+int64(n1)+int64(n2))
	// the persisted counter equals the in-memory one (a restart resumes above every assigned version)
	c2, err2 := xkv.OpenCounter(ctx, kv, []byte(versionCounterKey))
	verifAssert("assign-persisted", err2 == nil && c2.Value() == c.Value())
	verifReach("end")
}

// ---- prefix iteration over the model store (insertion order; harness assertions compare as sets) ----

type verifKVIter struct {
	xkv.Iterator
	keys, vals [][]byte
	pos        int
}

func (kv *verifKV) OpenIterator(opts xkv.IteratorOptions) (xkv.Iterator, error) {
	it := &verifKVIter{pos: -1}
	for _, e := range kv.entries {
		if e.deleted {
			continue
		}
		if opts.LowerBound != nil && verifBytesLess(e.k, opts.LowerBound) {
			continue
		}
		if opts.UpperBound != nil && !verifBytesLess(e.k, opts.UpperBound) {
			continue
		}
		it.keys = append(it.keys, e.k)
		it.vals = append(it.vals, e.v)
	}
	return it, nil
}

func verifBytesLess(a, b []byte) bool {
	for i := 0; i < len(a) && i < len(b); i++ {
		if a[i] != b[i] {
			return a[i] < b[i]
		}
	}
	return len(a) < len(b)
}

func (it *verifKVIter) First() bool   { it.pos = 0; return it.Valid() }
func (it *verifKVIter) Next() bool    { it.pos++; return it.Valid() }
func (it *verifKVIter) Valid() bool   { return it.pos >= 0 && it.pos < len(it.keys) }
func (it *verifKVIter) Key() []byte   { return it.keys[it.pos] }
func (it *verifKVIter) Value() []byte { return it.vals[it.pos] }
func (it *verifKVIter) Error() error  { return nil }
func (it *verifKVIter) Close() error  { return nil }

type verifRecoveryStream struct {
	RecoveryTransportServerStream
	req  RecoveryRequest
	sent []Operation
}

func (s *verifRecoveryStream) Receive() (RecoveryRequest, error) { return s.req, nil }
func (s *verifRecoveryStream) Send(r RecoveryResponse) error {
	s.sent = append(s.sent, r.Operations...)
	return nil
}

// VerifC06RecoveryFilter: a recovering peer that announces high-water mark hw is sent every stored operation whose
// version is at or above hw (versions of different leaseholders can tie with hw), each exactly once, with the stored
// value, and nothing below hw.
func VerifC06RecoveryFilter() {
	m := verifLen("m", 0, verifParam("m", 2))
	kv, pre := verifStore(m)
	rs := &recoveryServer{}
	rs.Engine = kv
	hw := version.Counter(verifInt64("hw"))
	st := &verifRecoveryStream{req: RecoveryRequest{HighWater: hw}}
	err := rs.recoverPeer(context.Background(), st)
	verifAssert("recover-no-error", err == nil)
	for _, p := range pre {
		cnt := 0
		for _, s := range st.sent {
			if verifBytesEq(s.Key, p.Key) {
				cnt++
				verifAssert("recover-sends-stored-op", s.Version == p.Version && s.Leaseholder == p.Leaseholder && s.Variant == p.Variant && (p.Variant == change.VariantDelete || verifBytesEq(s.Value, p.Value)))
			}
		}
		if p.Version >= hw {
			verifAssert("recover-sends-at-or-above-high-water", cnt == 1)
		} else {
			verifAssert("recover-skips-below-high-water", cnt == 0)
		}
	}
	verifAssert("recover-sends-nothing-else", len(st.sent) <= m)
	verifReach("end")
}

// VerifC06GossipStore: the gossip store keeps offering the newest operation of a key until that very operation has
// been acknowledged more than RecoveryThreshold times; feedback about an older version of the key must not stop the
// newer one from being gossiped (otherwise a write that nobody has fetched yet is never propagated).
func VerifC06GossipStore() {
	ctx := context.Background()
	st := newStore()
	sink := &storeSink{store: st}
	threshold := verifLen("threshold", 0, 2)
	rt := &gossipRecoveryTransform{repetitions: make(map[string]int)}
	rt.RecoveryThreshold = threshold
	older, newer := verifOp("older"), verifOp("newer")
	newer.Key = older.Key
	verifAssume(newer.Version > older.Version && older.Version >= 0)
	// the older write is stored and gossiped; then the key is written again
	_ = sink.Store(ctx, TxRequest{Operations: []Operation{older}})
	withNewer := verifBool("newer-write-happens")
	if withNewer {
		_ = sink.Store(ctx, TxRequest{Operations: []Operation{newer}})
	}
	// peers acknowledge the OLDER version r times
	r := verifLen("feedbacks", 0, threshold+2)
	for i := 0; i < r; i++ {
		out, ok, err := rt.transform(ctx, Digests{older.Digest()}.toRequest(ctx))
		verifAssume(ok && err == nil)
		_ = sink.Store(ctx, out)
	}
	state, release := st.PeekState()
	offered := state.toBatchRequest(ctx).Operations
	release()
	hasOlder, hasNewer := false, false
	for _, op := range offered {
		if op.Version == older.Version {
			hasOlder = true
		}
		if op.Version == newer.Version {
			hasNewer = true
		}
	}
	if withNewer {
		verifAssert("newer-write-still-offered", hasNewer)
	} else {
		// recovered only after more than threshold acknowledgements of that (key, version)
		verifAssert("older-offered-until-acknowledged", hasOlder == (r <= threshold+1))
	}
	verifReach("end")
}

// ---- recovery client model: each peer answers with the operations it holds at or above the announced mark ----

type verifRecClient struct {
	RecoveryTransportClient
	peers map[address.Address][]Operation
	// interleave, when set, runs once inside the first Stream call: it models another recovery goroutine being
	// scheduled after this one has read its high-water mark and before it applies anything
	interleave func()
}

type verifRecClientStream struct {
	RecoveryTransportClientStream
	ops []Operation
	hw  version.Counter
	pos int
}

func (c *verifRecClient) Stream(_ context.Context, target address.Address) (RecoveryTransportClientStream, error) {
	if f := c.interleave; f != nil {
		c.interleave = nil
		f()
	}
	return &verifRecClientStream{ops: c.peers[target]}, nil
}

func (s *verifRecClientStream) Send(r RecoveryRequest) error { s.hw = r.HighWater; return nil }

func (s *verifRecClientStream) Receive() (RecoveryResponse, error) {
	for s.pos < len(s.ops) {
		op := s.ops[s.pos]
		s.pos++
		if op.Version.OlderThan(s.hw) {
			continue
		}
		return RecoveryResponse{Operations: []Operation{op}}, nil
	}
	return RecoveryResponse{}, io.EOF
}

// VerifC06RecoveryApply: a restarted node that recovers from two peers holding different versions of a key ends up
// with the newest of everything it was sent, whatever the order in which the peers are consulted: an applied
// operation is never replaced by an older one.
func VerifC06RecoveryApply() {
	ctx := context.Background()
	m := verifLen("m", 0, verifParam("m", 1))
	kv, pre := verifStore(m)
	k := verifBytes("key", 1)
	p1, p2 := verifOp("peer1"), verifOp("peer2")
	p1.Key, p2.Key = k, k
	verifAssume(p1.Version != p2.Version || p1.Leaseholder != p2.Leaseholder)
	// the key's lease is not transferable: both versions come from the same leaseholder
	verifAssume(p1.Leaseholder == p2.Leaseholder)
	var local *Operation
	for i := range pre {
		if verifBytesEq(pre[i].Key, k) {
			local = &pre[i]
			verifAssume(local.Leaseholder == p1.Leaseholder)
			verifAssume(local.Version != p1.Version && local.Version != p2.Version)
		}
	}
	cfg := Config{Engine: kv}
	cfg.RecoveryTransportClient = &verifRecClient{peers: map[address.Address][]Operation{"p1": {p1}, "p2": {p2}}}
	first, second := node.Node{Key: 2, Address: "p1"}, node.Node{Key: 3, Address: "p2"}
	if verifBool("peer2-first") {
		first, second = second, first
	}
	hw, _ := loadHighWater(ctx, cfg)
	client := cfg.RecoveryTransportClient.(*verifRecClient)
	if verifBool("concurrent") {
		// runRecovery starts one goroutine per peer; schedule: the first reads its high-water mark, the second runs
		// to completion, the first resumes
		client.interleave = func() {
			verifAssert("recover-second-no-error", runSingleNodeRecovery(ctx, cfg, second) == nil)
		}
		verifAssert("recover-first-no-error", runSingleNodeRecovery(ctx, cfg, first) == nil)
	} else {
		verifAssert("recover-first-no-error", runSingleNodeRecovery(ctx, cfg, first) == nil)
		verifAssert("recover-second-no-error", runSingleNodeRecovery(ctx, cfg, second) == nil)
	}
	best := local
	for _, c := range []*Operation{&p1, &p2} {
		if c.Version.OlderThan(hw) {
			continue // below the announced high-water mark: never sent
		}
		if best == nil || verifHSupersedes(*c, *best) {
			best = c
		}
	}
	// completeness: what the node ends up with is the newest operation among its own and the peers', also when
	// that operation's version lies below the node's high-water mark (versions are per-leaseholder counters; the
	// mark is one number over all leaseholders)
	bestAll := local
	for _, c := range []*Operation{&p1, &p2} {
		if bestAll == nil || verifHSupersedes(*c, *bestAll) {
			bestAll = c
		}
	}
	dig, err := getDigestFromKV(ctx, kv, k)
	verifAssertKnown("recovery-brings-the-newest-operation-the-peers-hold",
		err == nil && dig.Version == bestAll.Version && dig.Leaseholder == bestAll.Leaseholder,
		"C06-recovery-scalar-high-water", bestAll != best)
	if best == nil {
		verifAssert("nothing-recovered", err != nil)
	} else {
		verifAssert("recovered-newest-wins", err == nil && dig.Version == best.Version && dig.Variant == best.Variant)
		v, ok := kv.lookup(k)
		if best.Variant == change.VariantDelete {
			verifAssert("recovered-value-delete", !ok)
		} else {
			verifAssert("recovered-value-set", ok && verifBytesEq(v, best.Value))
		}
	}
	verifReach("end")
}
