//go:build verif_harness

package kv

import (
	"context"

	"github.com/synnaxlabs/aspen/internal/cluster"
	"github.com/synnaxlabs/aspen/internal/cluster/store"
	"github.com/synnaxlabs/aspen/internal/node"
	xkv "github.com/synnaxlabs/x/kv"
)

// VerifC06LocalCommitAfterGossip: a local write interleaved with gossip. The host stages a write in a
// transaction (the real lease allocator resolves its leaseholder from the stored digest at that moment); before
// the transaction commits, an operation of another node arrives through the gossip ingress; then the staged
// request runs through the real version assigner and the real local persist stage. Whatever arrived in
// between, the digest stored for every key never moves to an older (version, leaseholder) pair, and a key the
// local write does not touch keeps what gossip stored for it.
func VerifC06LocalCommitAfterGossip() {
	ctx := context.Background()
	kv, pre := verifStore(verifLen("m", 0, verifParam("m", 1)))
	st := store.New(ctx)
	host := node.Key(verifUint16("host"))
	verifAssume(host >= 1 && host < 4095)
	st.SetHost(ctx, node.Node{Key: host})
	cfg := Config{Engine: kv, Cluster: &cluster.Cluster{Store: st}}
	// a well-formed store: keys led by the host carry versions the host's counter has already passed
	start := verifInt64("counter")
	verifAssume(start >= 0 && start < 1<<60)
	for _, p := range pre {
		verifAssume(p.Leaseholder >= 1 && p.Leaseholder < 4095)
		verifAssume(p.Leaseholder != host || int64(p.Version) <= start)
	}
	c, err := xkv.OpenCounter(ctx, kv, []byte(versionCounterKey))
	verifAssume(err == nil)
	_, _ = c.Add(ctx, start)

	// the local write is staged: its leaseholder is resolved now
	local := verifOp("local")
	local.Version, local.Leaseholder = 0, nodeKeyDefaultLeaseholder
	la := &leaseAllocator{Config: cfg}
	local, err = la.allocate(ctx, local)
	if err != nil || local.Leaseholder != host {
		return // led by another node (forwarded there) or refused: not the local path
	}
	// an operation of another node arrives by gossip. Leases are not transferable: for a key this store already
	// knows, only its leaseholder produces operations.
	g := verifOp("gossip")
	verifAssume(g.Leaseholder >= 1 && g.Leaseholder < 4095 && g.Leaseholder != host && g.Version >= 1)
	for _, p := range pre {
		if verifBytesEq(p.Key, g.Key) {
			verifAssume(g.Leaseholder == p.Leaseholder)
		}
	}
	fp := verifFP(kv)
	acc, _ := verifIngress(fp, g)
	digestOf := func(key []byte) (Digest, bool) {
		d, err := getDigestFromKV(ctx, kv, key)
		return d, err == nil
	}
	gDig, gStored := digestOf(g.Key)
	verifAssert("gossip-op-stored-iff-accepted", len(acc) == 0 || (gStored && gDig.Version == g.Version && gDig.Leaseholder == g.Leaseholder))
	lBefore, lHad := digestOf(local.Key)

	// commit: version assignment and the local persist stage
	va := &versionAssigner{counter: c, Config: cfg}
	req, ok, _ := va.assign(ctx, TxRequest{Context: ctx, Leaseholder: host, Operations: []Operation{local}})
	verifAssert("assigned", ok && len(req.Operations) == 1 && int64(req.Operations[0].Version) == start+1)
	ps := &persist{db: kv}
	_, forwarded, _ := ps.persist(ctx, req)
	verifAssert("local-commit-forwarded", forwarded)

	lAfter, lHas := digestOf(local.Key)
	verifAssert("local-key-has-a-digest", lHas)
	sameKey := verifBytesEq(local.Key, g.Key)
	if lHad {
		older := lAfter.Version < lBefore.Version || (lAfter.Version == lBefore.Version && lAfter.Leaseholder < lBefore.Leaseholder)
		verifAssertKnown("stored-digest-never-moves-to-an-older-operation", !older, "C06-local-commit-overwrites-newer", sameKey && len(acc) == 1)
	}
	if !sameKey {
		gAfter, gHas := digestOf(g.Key)
		verifAssert("untouched-key-keeps-what-gossip-stored", gHas == gStored && (!gHas || (gAfter.Version == gDig.Version && gAfter.Leaseholder == gDig.Leaseholder)))
	}
	verifReach("end")
}
