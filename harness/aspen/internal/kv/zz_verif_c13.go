//go:build verif_harness

package kv

import (
	"context"

	"github.com/synnaxlabs/aspen/internal/cluster"
	"github.com/synnaxlabs/aspen/internal/cluster/store"
	"github.com/synnaxlabs/aspen/internal/node"
	"github.com/synnaxlabs/x/confluence"
	"github.com/synnaxlabs/x/errors"
	xkv "github.com/synnaxlabs/x/kv"
)

// VerifC13HostFilter: a subscriber created with IgnoreHostLeaseholder is called exactly for transactions whose
// leaseholder is not the host; a plain subscriber is called for every transaction; each notification carries
// exactly the operations of the transaction, in order.
func VerifC13HostFilter() {
	ctx := context.Background()
	st := store.New(ctx)
	host := node.Key(verifUint16("host"))
	verifAssume(host >= 1 && host < 4095)
	st.SetHost(ctx, node.Node{Key: host})
	db := &DB{txObservable: confluence.NewObservableSubscriber[TxRequest]()}
	db.config.Cluster = &cluster.Cluster{Store: st}
	plainCalls, filteredCalls := 0, 0
	var plainOps, filteredOps int
	d1 := db.NewObservable().OnChange(func(_ context.Context, r xkv.TxReader) {
		plainCalls++
		for range r {
			plainOps++
		}
	})
	d2 := db.NewObservable(IgnoreHostLeaseholder).OnChange(func(_ context.Context, r xkv.TxReader) {
		filteredCalls++
		for range r {
			filteredOps++
		}
	})
	n := verifLen("ops", 0, 2)
	tx := TxRequest{Context: ctx, Leaseholder: node.Key(verifUint16("tx.leaseholder")), Operations: make([]Operation, n)}
	for i := range tx.Operations {
		tx.Operations[i] = verifOp("op")
	}
	db.txObservable.Notify(ctx, tx)
	verifAssert("plain-always-notified", plainCalls == 1 && plainOps == n)
	hidden := tx.Leaseholder == host
	verifObserveBool("hidden", hidden)
	if hidden {
		verifAssert("filter-hides-host-led", filteredCalls == 0)
	} else {
		verifAssert("filter-passes-remote-led", filteredCalls == 1 && filteredOps == n)
	}
	d1()
	d2()
	db.txObservable.Notify(ctx, tx)
	verifAssert("disconnect-stops-notifications", plainCalls == 1 && filteredCalls <= 1)
	verifReach("end")
}

// VerifC13IngressOnce: at the gossip ingress an operation reaches the accepted outlet (the one that feeds
// observers) at most once however often it is redelivered, never when it lost to what is already stored, and
// always when it changed the store.
func VerifC13IngressOnce() {
	m := verifLen("m", 0, verifParam("m", 1))
	kv, pre := verifStore(m)
	fp := verifFP(kv)
	a := verifOp("a")
	for _, p := range pre {
		if verifBytesEq(a.Key, p.Key) {
			verifAssume(a.Version != p.Version || a.Leaseholder != p.Leaseholder)
		}
	}
	var prev *Operation
	for i := range pre {
		if verifBytesEq(pre[i].Key, a.Key) {
			prev = &pre[i]
		}
	}
	before := kv.clone()
	// a request carrying the operation twice, then a redelivery, with an unrelated winner in between
	acc1, rej1 := verifIngress(fp, a, a)
	changed := !verifHStoresEqual(before, kv)
	b := verifOp("b")
	_, _ = verifIngress(fp, b)
	acc2, _ := verifIngress(fp, a)
	total := len(acc1) + len(acc2)
	verifAssert("at-most-once", total <= 1)
	verifAssert("duplicate-in-one-request-rejected", len(acc1)+len(rej1) == 2 && len(rej1) >= 1)
	stale := prev != nil && !verifHSupersedes(a, *prev)
	if stale {
		verifAssert("never-stale", total == 0 && !changed)
	} else {
		verifAssert("complete-at-ingress", len(acc1) == 1 && changed)
	}
	verifReach("end")
}

// ---- a store whose transactions fail at the k-th write ----

type verifFailKV struct {
	*verifKV
	failAt int // 1-based index of the failing Set/Delete over the lifetime of the store; 0: never
	writes int
}

type verifFailTx struct {
	*verifTx
	db *verifFailKV
}

var errVerifWrite = errors.New("verif: injected write failure")

func (kv *verifFailKV) OpenTx() xkv.Tx {
	return &verifFailTx{verifTx: &verifTx{db: kv.verifKV}, db: kv}
}

func (tx *verifFailTx) Set(ctx context.Context, key, value []byte, o ...any) error {
	tx.db.writes++
	if tx.db.writes == tx.db.failAt {
		return errVerifWrite
	}
	return tx.verifTx.Set(ctx, key, value, o...)
}

func (tx *verifFailTx) Delete(ctx context.Context, key []byte, o ...any) error {
	tx.db.writes++
	if tx.db.writes == tx.db.failAt {
		return errVerifWrite
	}
	return tx.verifTx.Delete(ctx, key, o...)
}

// VerifC13LocalPersist: the local persist stage (the one whose output feeds the observers and the gossip store)
// with a storage engine that fails at an arbitrary write of the transaction, or not at all. The request is
// forwarded downstream exactly when it was committed; a failed commit is reported to the caller, forwards nothing
// and leaves the store as it was.
func VerifC13LocalPersist() {
	ctx := context.Background()
	kv, _ := verifStore(verifLen("m", 0, 1))
	n := verifLen("ops", 1, verifParam("ops", 2))
	fkv := &verifFailKV{verifKV: kv, failAt: verifLen("failAt", 0, 2*n)}
	ps := &persist{db: fkv}
	var doneErr error
	doneCalls := 0
	tx := TxRequest{Context: ctx, Leaseholder: 1, Operations: make([]Operation, n), doneF: func(err error) { doneCalls++; doneErr = err }}
	for i := range tx.Operations {
		tx.Operations[i] = verifOp("op")
	}
	before, commitsBefore := kv.clone(), kv.commits
	out, forwarded, err := ps.persist(ctx, tx)
	fails := fkv.failAt != 0
	verifObserveBool("forwarded", forwarded)
	verifAssert("persist-stage-never-stops-the-pipeline", err == nil)
	verifAssert("caller-told-once", doneCalls == 1)
	verifAssert("caller-told-of-failure-iff-write-failed", (doneErr != nil) == fails)
	verifAssert("forwarded-to-observers-iff-committed", forwarded == !fails)
	if fails {
		verifAssert("failed-commit-leaves-store-unchanged", verifHStoresEqual(before, kv) && kv.commits == commitsBefore)
	} else {
		verifAssert("forwarded-request-carries-the-operations", len(out.Operations) == n)
		verifAssert("committed-once", kv.commits == commitsBefore+1)
	}
	verifReach("end")
}
