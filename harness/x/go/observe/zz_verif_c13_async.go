//go:build verif_harness

package observe

import "context"

// VerifC13AsyncFanout: the asynchronous observer that feeds aspen's change subscribers delivers each value to
// every handler's queue that has room, whatever the state of the other handlers' queues and whatever order the
// handler map is walked in: a subscriber that keeps up is not made to miss a value by another one that has
// fallen behind. Two handlers with queues of capacity 2 (the real capacity is 64; the loop under test does not
// depend on it), filled to an arbitrary level; one Notify.
func VerifC13AsyncFanout() {
	type msg = asyncMessage[int]
	a := &async[int]{handlers: make(map[*asyncHandler[int]]func(context.Context, int))}
	verifMapOrder(a.handlers)
	hs := [2]*asyncHandler[int]{}
	var before [2]int
	for i := range hs {
		hs[i] = &asyncHandler[int]{ch: make(chan msg, 2), done: make(chan struct{})}
		before[i] = verifLen("queued", 0, 2)
		for k := 0; k < before[i]; k++ {
			hs[i].ch <- msg{val: -1}
		}
		a.handlers[hs[i]] = func(context.Context, int) {}
	}
	a.Notify(context.Background(), 7)
	for i := range hs {
		room := before[i] < 2
		got := len(hs[i].ch) - before[i]
		verifAssert("handler-with-room-receives-the-value", !room || got == 1)
		verifAssert("full-handler-drops-the-value", room || got == 0)
		// the newest queued value is the notified one
		if room && got == 1 {
			var last msg
			for k := 0; k <= before[i]; k++ {
				last = <-hs[i].ch
			}
			verifAssert("received-value-is-the-notified-one", last.val == 7)
		}
	}
	verifReach("end")
}
