//go:build verif_harness

package telem

func verifTS(label string) TimeStamp { return TimeStamp(verifInt64(label)) }

func verifTR(label string) TimeRange {
	return TimeRange{Start: verifTS(label + ".start"), End: verifTS(label + ".end")}
}

// refOverlap is the reference overlap predicate for valid ranges (see DESIGN C03.K1).
func refOverlap(a, b TimeRange) bool {
	if a == b {
		return true
	}
	if a.Start == b.Start {
		return true
	}
	return a.Start < b.End && b.Start < a.End
}

// VerifC03Overlap: OverlapsWith on valid, non-negative ranges equals the reference and is symmetric.
func VerifC03Overlap() {
	a, b := verifTR("a"), verifTR("b")
	verifAssume(a.Start >= 0 && b.Start >= 0)
	verifAssume(a.Start <= a.End && b.Start <= b.End)
	got := a.OverlapsWith(b)
	verifObserveBool("overlap", got)
	verifAssert("overlap-ref", got == refOverlap(a, b))
	verifAssert("overlap-symmetric", got == b.OverlapsWith(a))
	verifReach("end")
}

// VerifC03Contains: ContainsStamp / ContainsRange reference formulas.
func VerifC03Contains() {
	a, b := verifTR("a"), verifTR("b")
	ts := verifTS("ts")
	verifAssert("contains-stamp", a.ContainsStamp(ts) == (ts >= a.Start && ts < a.End))
	verifAssert("contains-range", a.ContainsRange(b) == (b.Start >= a.Start && b.End <= a.End))
	verifReach("end")
}

// VerifC03BoundBy: the result of BoundBy lies inside the bound and equals the intersection when they overlap.
func VerifC03BoundBy() {
	a, b := verifTR("a"), verifTR("b")
	verifAssume(a.Start >= 0 && b.Start >= 0)
	verifAssume(a.Start <= a.End && b.Start <= b.End)
	r := a.BoundBy(b)
	verifObserve("r.start", int64(r.Start))
	verifObserve("r.end", int64(r.End))
	verifAssert("boundby-valid", r.Start <= r.End)
	verifAssert("boundby-inside-lo", r.Start >= b.Start)
	verifAssert("boundby-inside-hi", r.End <= b.End)
	if a.Start < b.End && b.Start < a.End {
		verifAssert("boundby-intersection-start", r.Start == max(a.Start, b.Start))
		verifAssert("boundby-intersection-end", r.End == min(a.End, b.End))
	}
	if b.ContainsRange(a) {
		verifAssert("boundby-identity", r == a)
	}
	verifReach("end")
}

// VerifC03Add: TimeStamp.Add clamps instead of wrapping.
func VerifC03Add() {
	ts := verifTS("ts")
	sp := TimeSpan(verifInt64("span"))
	r := ts.Add(sp)
	verifObserve("r", int64(r))
	if sp >= 0 {
		verifAssert("add-monotone-up", r >= ts)
	} else {
		verifAssert("add-monotone-down", r <= ts)
	}
	// exact when no overflow
	sum := int64(ts) + int64(sp)
	noOverflow := (sp >= 0 && sum >= int64(ts)) || (sp < 0 && sum < int64(ts))
	if noOverflow {
		verifAssert("add-exact", int64(r) == sum)
	} else if sp >= 0 {
		verifAssert("add-clamp-max", r == TimeStampMax)
	}
	verifReach("end")
}

// VerifC03MakeValid: MakeValid orders non-negative stamps; Union/Intersection references.
func VerifC03MakeValid() {
	a, b := verifTR("a"), verifTR("b")
	verifAssume(a.Start >= 0 && a.End >= 0 && b.Start >= 0 && b.End >= 0)
	v := a.MakeValid()
	verifAssert("makevalid-ordered", v.Start <= v.End)
	verifAssert("makevalid-same-set", (v == a) || (v.Start == a.End && v.End == a.Start))
	u := a.Union(b)
	verifAssert("union-start", u.Start == min(a.Start, b.Start))
	verifAssert("union-end", u.End == max(a.End, b.End))
	verifAssume(a.Start <= a.End && b.Start <= b.End)
	i := a.Intersection(b)
	if refOverlap(a, b) {
		verifAssert("intersection-start", i.Start == max(a.Start, b.Start))
		verifAssert("intersection-end", i.End == min(a.End, b.End))
	} else {
		verifAssert("intersection-zero", i == TimeRangeZero)
	}
	verifReach("end")
}
