//go:build verif_harness

package fs

import "os"

//verif:assume process-crash model: every completed file-system call survives, the crashing call is either not applied or, for Write/WriteAt, applied to an arbitrary prefix of its bytes; nothing is reordered (cesium never fsyncs, and the property's quantifier is over prefixes of the mutation sequence)

// VerifCrash is the panic that models the death of the process.
type VerifCrash struct{}

// VerifCrashState counts the mutating calls that cross the FS/File interfaces and kills the process at one.
type VerifCrashState struct {
	Budget  int // the mutation with this index crashes; < 0: never
	Count   int
	Crashed bool
	Site    int // kind of the crashing call (VerifSite*)
	OnIndex bool
	Log     []int // kinds of the mutations that completed (diagnostics / conformance)
}

const (
	VerifSiteNone = iota
	VerifSiteCreate
	VerifSiteWrite
	VerifSiteWriteAt
	VerifSiteTruncate
	VerifSiteRename
	VerifSiteRemove
)

// hit reports whether the mutation about to happen is the one that crashes.
func (s *VerifCrashState) hit(site int, name string) bool {
	if s.Budget >= 0 && s.Count == s.Budget {
		s.Crashed, s.Site, s.OnIndex = true, site, name == "index.domain"
		return true
	}
	s.Count++
	s.Log = append(s.Log, site)
	return false
}

type VerifCrashFS struct {
	FS
	St *VerifCrashState
}

type verifCrashFile struct {
	File
	name string
	St   *VerifCrashState
}

func (f *VerifCrashFS) Open(name string, flag int) (File, error) {
	if flag&os.O_CREATE != 0 {
		if ex, _ := f.FS.Exists(name); !ex {
			if f.St.hit(VerifSiteCreate, name) {
				panic(VerifCrash{})
			}
		}
	}
	file, err := f.FS.Open(name, flag)
	if err != nil {
		return nil, err
	}
	return &verifCrashFile{File: file, name: name, St: f.St}, nil
}

func (f *VerifCrashFS) Sub(name string) (FS, error) {
	if ex, _ := f.FS.Exists(name); !ex { // Sub creates the directory
		if f.St.hit(VerifSiteCreate, name) {
			panic(VerifCrash{})
		}
	}
	sub, err := f.FS.Sub(name)
	if err != nil {
		return nil, err
	}
	return &VerifCrashFS{FS: sub, St: f.St}, nil
}

func (f *VerifCrashFS) Remove(name string) error {
	if f.St.hit(VerifSiteRemove, name) {
		panic(VerifCrash{})
	}
	return f.FS.Remove(name)
}

func (f *VerifCrashFS) Rename(oldName, newName string) error {
	if f.St.hit(VerifSiteRename, oldName) {
		panic(VerifCrash{})
	}
	return f.FS.Rename(oldName, newName)
}

func (f *verifCrashFile) Write(p []byte) (int, error) {
	if f.St.hit(VerifSiteWrite, f.name) {
		torn := verifLen("torn", 0, len(p))
		_, _ = f.File.Write(p[:torn])
		panic(VerifCrash{})
	}
	return f.File.Write(p)
}

func (f *verifCrashFile) WriteAt(p []byte, off int64) (int, error) {
	if f.St.hit(VerifSiteWriteAt, f.name) {
		torn := verifLen("torn", 0, len(p))
		_, _ = f.File.WriteAt(p[:torn], off)
		panic(VerifCrash{})
	}
	return f.File.WriteAt(p, off)
}

func (f *verifCrashFile) Truncate(n int64) error {
	if f.St.hit(VerifSiteTruncate, f.name) {
		panic(VerifCrash{})
	}
	return f.File.Truncate(n)
}

// VerifCrashRun runs the script; it returns normally also when the script "died".
func VerifCrashRun(script func()) {
	defer func() {
		if r := recover(); r != nil {
			if _, ok := r.(VerifCrash); !ok {
				panic(r)
			}
		}
	}()
	script()
}


// VerifHookFS calls OnOpen before every Open: harnesses use it to run another operation at a chosen point inside
// the operation under test (a schedule in which the other goroutine runs exactly there).
type VerifHookFS struct {
	FS
	OnOpen func(name string, flag int)
	OnStat func(name string)
}

func (f *VerifHookFS) Stat(name string) (FileInfo, error) {
	if f.OnStat != nil {
		f.OnStat(name)
	}
	return f.FS.Stat(name)
}

func (f *VerifHookFS) Open(name string, flag int) (File, error) {
	if f.OnOpen != nil {
		f.OnOpen(name, flag)
	}
	return f.FS.Open(name, flag)
}

func (f *VerifHookFS) Sub(name string) (FS, error) {
	sub, err := f.FS.Sub(name)
	if err != nil {
		return nil, err
	}
	return &VerifHookFS{FS: sub, OnOpen: f.OnOpen, OnStat: f.OnStat}, nil
}
