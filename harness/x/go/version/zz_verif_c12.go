//go:build verif_harness

package version

func verifHB(label string) Heartbeat {
	return Heartbeat{Generation: verifUint32(label + ".gen"), Version: verifUint32(label + ".ver")}
}

// refOlder: lexicographic (generation, version) "more advanced than".
func refOlder(a, b Heartbeat) bool {
	return a.Generation > b.Generation || (a.Generation == b.Generation && a.Version > b.Version)
}

// VerifC12HeartbeatOrder: OlderThan / YoungerThan are dual strict total orders; Increment and Restart advance.
func VerifC12HeartbeatOrder() {
	a, b, c := verifHB("a"), verifHB("b"), verifHB("c")
	verifAssert("older-ref", a.OlderThan(b) == refOlder(a, b))
	verifAssert("younger-dual", a.YoungerThan(b) == b.OlderThan(a))
	verifAssert("irreflexive", !a.OlderThan(a) && !a.YoungerThan(a))
	verifAssert("asymmetric", !(a.OlderThan(b) && b.OlderThan(a)))
	verifAssert("total", a == b || a.OlderThan(b) || b.OlderThan(a))
	if a.OlderThan(b) && b.OlderThan(c) {
		verifAssert("transitive", a.OlderThan(c))
	}
	// bound: no wrap-around of the 32-bit counters
	if a.Version < 1<<32-1 {
		verifAssert("increment-advances", a.Increment().OlderThan(a))
	}
	if a.Generation < 1<<32-1 {
		r := a.Restart()
		verifAssert("restart-advances", r.OlderThan(a))
		// Restart dominates every heartbeat of the previous generation
		if b.Generation == a.Generation {
			verifAssert("restart-dominates-generation", r.OlderThan(b))
		}
	}
	verifReach("end")
}

// VerifC06CounterOrder: version.Counter comparisons form a strict total order.
func VerifC06CounterOrder() {
	a, b, c := Counter(verifInt64("a")), Counter(verifInt64("b")), Counter(verifInt64("c"))
	verifAssert("newer-ref", a.NewerThan(b) == (a > b))
	verifAssert("older-dual", a.OlderThan(b) == b.NewerThan(a))
	verifAssert("equal-ref", a.EqualTo(b) == (a == b))
	verifAssert("trichotomy", a.EqualTo(b) || a.NewerThan(b) || b.NewerThan(a))
	if a.NewerThan(b) && b.NewerThan(c) {
		verifAssert("transitive", a.NewerThan(c))
	}
	if a < 1<<63-1 {
		verifAssert("increment", a.Increment().NewerThan(a))
	}
	verifReach("end")
}
