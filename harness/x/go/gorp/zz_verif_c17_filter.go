//go:build verif_harness

package gorp

import (
	"context"

	"github.com/synnaxlabs/x/errors"
	"github.com/synnaxlabs/x/query"
)

//verif:assume VerifC17FilterTree: key-value engine modelled by VerifKV (writes of an open transaction go straight to the store, so no reader outside that transaction is consulted while it is open); entry codec is an ideal handle codec

var verifFEntries []verifEntry

func verifFCodec() VerifCodec {
	verifFEntries = nil
	return VerifCodec{
		Enc: func(v any) ([]byte, error) {
			if e, ok := v.(verifEntry); ok {
				verifFEntries = append(verifFEntries, e)
				return []byte{byte(len(verifFEntries) - 1)}, nil
			}
			return nil, errors.New("verif codec: unsupported type")
		},
		Dec: func(b []byte, v any) error {
			if p, ok := v.(*verifEntry); ok && len(b) == 1 {
				*p = verifFEntries[b[0]]
				return nil
			}
			return errors.New("verif codec: unsupported type")
		},
	}
}

// verifLeaf is one leaf of a filter tree, in its reference form.
type verifLeaf struct {
	kind int   // 0: indexed value in {v, w}; 1: key in {k1,k2}; 2: predicate value >= v; 3: raw-byte predicate value <= v
	v    int64 // kinds 0, 2, 3
	w    int64 // kind 0: second listed value (w == v with two: the value is listed twice)
	two  bool  // kind 0: two values listed
	k1   uint32
	k2   uint32
}

func (l verifLeaf) holds(k uint32, v int64) bool {
	switch l.kind {
	case 0:
		return v == l.v || (l.two && v == l.w)
	case 1:
		return k == l.k1 || k == l.k2
	case 3:
		return v <= l.v
	}
	return v >= l.v
}

// filter builds the leaf either through the secondary index or as a scan predicate.
func (l verifLeaf) filter(idx *LookupIndex[uint32, verifEntry, int64], indexed bool) Filter[uint32, verifEntry] {
	switch l.kind {
	case 0:
		if indexed {
			if l.two {
				return idx.Filter(l.v, l.w)
			}
			return idx.Filter(l.v)
		}
		want, want2 := l.v, l.w
		if !l.two {
			want2 = want
		}
		return Match[uint32, verifEntry](func(_ Context, e *verifEntry) (bool, error) { return e.V == want || e.V == want2, nil })
	case 1:
		if l.k1 == l.k2 {
			return MatchKeys[uint32, verifEntry](l.k1)
		}
		return MatchKeys[uint32, verifEntry](l.k1, l.k2)
	}
	if l.kind == 3 {
		// a predicate over the encoded bytes (the handle codec stores one handle byte), run before decoding
		max := l.v
		return MatchRaw[uint32, verifEntry](func(_, value []byte) (bool, error) {
			if len(value) != 1 {
				return false, errors.New("verif: unexpected encoded value")
			}
			return verifFEntries[value[0]].V <= max, nil
		})
	}
	min := l.v
	return Match[uint32, verifEntry](func(_ Context, e *verifEntry) (bool, error) { return e.V >= min, nil })
}

func verifNewLeaf(maxKey, maxVal int) verifLeaf {
	l := verifLeaf{kind: verifLen("leaf-kind", 0, verifParam("kinds", 3))}
	switch l.kind {
	case 0:
		l.v = int64(verifLen("leaf-value", 0, maxVal))
		if l.two = verifBool("leaf-two-values"); l.two {
			l.w = int64(verifLen("leaf-value2", int(l.v), maxVal))
		}
	case 2, 3:
		l.v = int64(verifLen("leaf-value", 0, maxVal))
	default:
		// one key, or two different keys
		l.k1 = uint32(verifLen("leaf-key1", 1, maxKey))
		l.k2 = uint32(verifLen("leaf-key2", int(l.k1), maxKey))
	}
	return l
}

// VerifC17FilterTree: a filter tree evaluated through the secondary index (equality leaves resolved by the
// index, And/Or/Not materialisation of key sets) returns exactly the entries that the same tree with scan
// predicates returns, and both equal a direct evaluation of the tree over the transaction's view — for committed
// entries with colliding indexed values overlaid by an open transaction's own updates, deletes and creates.
func VerifC17FilterTree() {
	ctx := context.Background()
	store := &VerifKV{}
	db := VerifOpenDB(store, verifFCodec())
	idx := verifLookup()
	table := &Table[uint32, verifEntry]{db: db, keyPrefix: newKeyPrefix[verifEntry](),
		indexes: []Index[uint32, verifEntry]{idx}}

	type row struct {
		v       int64
		present bool
	}
	maxVal := verifParam("maxval", 1)
	n := verifLen("committed", 0, verifParam("committed", 3))
	maxKey := n + 1
	view := make([]row, maxKey+1) // by key
	tx := db.OpenTx()
	for k := 1; k <= n; k++ {
		e := verifEntry{K: uint32(k), V: int64(verifLen("value", 0, maxVal))}
		if err := table.NewCreate().Entry(&e).Exec(ctx, tx); err != nil {
			panic(err)
		}
		view[k] = row{e.V, true}
	}
	if err := tx.Commit(ctx); err != nil {
		panic(err)
	}
	_ = tx.Close()

	// an open transaction with its own writes
	tx = db.OpenTx()
	pending := verifLen("pending", 0, verifParam("pending", 2))
	for i := 0; i < pending; i++ {
		k := verifLen("pending-key", 1, maxKey)
		if verifBool("pending-delete") {
			if err := table.NewDelete().Where(MatchKeys[uint32, verifEntry](uint32(k))).Exec(ctx, tx); err != nil {
				panic(err)
			}
			view[k].present = false
		} else {
			e := verifEntry{K: uint32(k), V: int64(verifLen("pending-value", 0, maxVal))}
			if err := table.NewCreate().Entry(&e).Exec(ctx, tx); err != nil {
				panic(err)
			}
			view[k] = row{e.V, true}
		}
	}

	shape := verifLen("shape", 0, verifParam("shapes", 7))
	l1, l2, l3 := verifNewLeaf(maxKey, maxVal), verifLeaf{}, verifLeaf{}
	if shape != 0 && shape != 3 {
		l2 = verifNewLeaf(maxKey, maxVal)
	}
	if shape == 5 || shape == 6 {
		l3 = verifNewLeaf(maxKey, maxVal)
	}
	type F = Filter[uint32, verifEntry]
	build := func(indexed bool) F {
		a, b, c := l1.filter(idx, indexed), l2.filter(idx, indexed), l3.filter(idx, indexed)
		switch shape {
		case 0:
			return a
		case 1:
			return And(a, b)
		case 2:
			return Or(a, b)
		case 3:
			return Not(a)
		case 4:
			return And(a, Not(b))
		case 5:
			return Or(a, And(b, c))
		case 6:
			return And(Or(a, b), c)
		}
		return Not(Or(a, b))
	}
	ref := func(k uint32, v int64) bool {
		a, b, c := l1.holds(k, v), l2.holds(k, v), l3.holds(k, v)
		switch shape {
		case 0:
			return a
		case 1:
			return a && b
		case 2:
			return a || b
		case 3:
			return !a
		case 4:
			return a && !b
		case 5:
			return a || (b && c)
		case 6:
			return (a || b) && c
		}
		return !(a || b)
	}
	// A tree made only of key leaves under And/Or collapses to a bare key set; gorp documents that such a query
	// reports requested-but-absent keys as query.ErrNotFound while still delivering the entries it found.
	keysOnly := l1.kind == 1 && shape != 3 && shape != 4 && shape != 7 &&
		(shape == 0 || l2.kind == 1) && ((shape != 5 && shape != 6) || l3.kind == 1)
	bareKeysMissing := shape == 0 && l1.kind == 1 && (!view[l1.k1].present || !view[l1.k2].present)
	run := func(indexed bool) (hit []bool, values bool, ok bool) {
		var out []verifEntry
		err := table.NewRetrieve().Where(build(indexed)).Entries(&out).Exec(ctx, tx)
		hit = make([]bool, maxKey+1)
		values, ok = true, err == nil
		if bareKeysMissing {
			ok = errors.Is(err, query.ErrNotFound)
		} else if keysOnly && err != nil {
			ok = errors.Is(err, query.ErrNotFound)
		}
		for _, e := range out {
			if int(e.K) > maxKey || hit[e.K] {
				ok = false // unknown key or duplicate
				continue
			}
			hit[e.K] = true
			if e.V != view[e.K].v {
				values = false
			}
		}
		return
	}
	ih, iv, iok := run(true)
	sh, sv, sok := run(false)
	sameAsScan, sameAsRef := true, true
	for k := 1; k <= maxKey; k++ {
		want := view[k].present && ref(uint32(k), view[k].v)
		if ih[k] != sh[k] {
			sameAsScan = false
		}
		if ih[k] != want {
			sameAsRef = false
		}
	}
	verifAssert("indexed-query-succeeds-without-duplicates", iok)
	verifAssert("scan-query-succeeds-without-duplicates", sok)
	verifAssert("indexed-equals-scan", sameAsScan)
	verifAssert("indexed-equals-reference-view", sameAsRef)
	verifAssert("entries-carry-current-values", iv && sv)
	// Count and Exists agree with Exec
	cnt, cerr := table.NewRetrieve().Where(build(true)).Count(ctx, tx)
	nHit := 0
	for k := 1; k <= maxKey; k++ {
		if ih[k] {
			nHit++
		}
	}
	ex, eerr := table.NewRetrieve().Where(build(true)).Exists(ctx, tx)
	if bareKeysMissing {
		// documented: for bare keys Exists means "every requested key exists"
		verifAssert("exists-bare-keys-all-present", eerr == nil && !ex)
	} else if !keysOnly {
		verifAssert("count-equals-exec", cerr == nil && cnt == nHit)
		verifAssert("exists-equals-exec", eerr == nil && ex == (nHit > 0))
	}
	verifReach("end")
}
