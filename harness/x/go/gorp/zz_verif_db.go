//go:build verif_harness

package gorp

import (
	"github.com/synnaxlabs/x/encoding"
	"bytes"
	"context"
	"io"

	"github.com/synnaxlabs/x/kv"
	"github.com/synnaxlabs/x/query"
)

// VerifKV is the harness model of the key-value engine under gorp: a last-writer-wins list with prefix/bounded
// iteration in INSERTION order (key order is not modelled; harness assertions compare results as sets).
type VerifKV struct {
	kv.DB
	Keys [][]byte
	Vals [][]byte
}

type verifNopCloser struct{}

func (verifNopCloser) Close() error { return nil }

func (d *VerifKV) find(key []byte) int {
	for i := range d.Keys {
		if bytes.Equal(d.Keys[i], key) {
			return i
		}
	}
	return -1
}

func (d *VerifKV) Get(_ context.Context, key []byte, _ ...any) ([]byte, io.Closer, error) {
	i := d.find(key)
	if i < 0 {
		return nil, nil, query.ErrNotFound
	}
	return d.Vals[i], verifNopCloser{}, nil
}

func (d *VerifKV) Set(_ context.Context, key, value []byte, _ ...any) error {
	k, v := bytes.Clone(key), bytes.Clone(value)
	if i := d.find(key); i >= 0 {
		d.Vals[i] = v
		return nil
	}
	d.Keys = append(d.Keys, k)
	d.Vals = append(d.Vals, v)
	return nil
}

func (d *VerifKV) Delete(_ context.Context, key []byte, _ ...any) error {
	if i := d.find(key); i >= 0 {
		d.Keys = append(d.Keys[:i:i], d.Keys[i+1:]...)
		d.Vals = append(d.Vals[:i:i], d.Vals[i+1:]...)
	}
	return nil
}

func (d *VerifKV) Commit(context.Context, ...any) error { return nil }
func (d *VerifKV) Close() error                         { return nil }
func (d *VerifKV) OpenTx() kv.Tx                        { return d }

type verifIter struct {
	kv.Iterator
	keys, vals [][]byte
	pos        int
}

func (d *VerifKV) OpenIterator(opts kv.IteratorOptions) (kv.Iterator, error) {
	it := &verifIter{pos: -1}
	for i := range d.Keys {
		if opts.LowerBound != nil && bytes.Compare(d.Keys[i], opts.LowerBound) < 0 {
			continue
		}
		if opts.UpperBound != nil && bytes.Compare(d.Keys[i], opts.UpperBound) >= 0 {
			continue
		}
		it.keys = append(it.keys, d.Keys[i])
		it.vals = append(it.vals, d.Vals[i])
	}
	return it, nil
}

func (it *verifIter) First() bool   { it.pos = 0; return it.Valid() }
func (it *verifIter) Next() bool    { it.pos++; return it.Valid() }
func (it *verifIter) Valid() bool   { return it.pos >= 0 && it.pos < len(it.keys) }
func (it *verifIter) Key() []byte   { return it.keys[it.pos] }
func (it *verifIter) Value() []byte { return it.vals[it.pos] }
func (it *verifIter) Error() error  { return nil }
func (it *verifIter) Close() error  { return nil }

// VerifCodec adapts two functions to encoding.Codec.
type VerifCodec struct {
	Enc func(v any) ([]byte, error)
	Dec func(b []byte, v any) error
}

func (c VerifCodec) Encode(_ context.Context, v any) ([]byte, error) { return c.Enc(v) }
func (c VerifCodec) Decode(_ context.Context, b []byte, v any) error { return c.Dec(b, v) }
func (c VerifCodec) EncodeStream(context.Context, io.Writer, any) error {
	panic("VerifCodec: EncodeStream unsupported")
}
func (c VerifCodec) DecodeStream(context.Context, io.Reader, any) error {
	panic("VerifCodec: DecodeStream unsupported")
}

// VerifOpenDB wraps a model store; VerifOpenTable opens a table on it without migrations, indexes or observers.
func VerifOpenDB(store *VerifKV, codec VerifCodec) *DB {
	return &DB{DB: store, options: options{Codec: codec}}
}

func VerifOpenTable[K Key, E Entry[K]](db *DB) *Table[K, E] {
	return &Table[K, E]{db: db, keyPrefix: newKeyPrefix[E]()}
}

// VerifOpenDBWith is VerifOpenDB for any codec (e.g. the real orc codec).
func VerifOpenDBWith(store *VerifKV, codec encoding.Codec) *DB {
	return &DB{DB: store, options: options{Codec: codec}}
}

// VerifOpenTableWith is VerifOpenTable with secondary indexes registered; the (empty) populate phase of each
// index is completed on the spot.
func VerifOpenTableWith[K Key, E Entry[K]](db *DB, idxs ...Index[K, E]) *Table[K, E] {
	for _, i := range idxs {
		_, finish := i.populate()
		finish(nil)
	}
	return &Table[K, E]{db: db, keyPrefix: newKeyPrefix[E](), indexes: idxs}
}
