//go:build verif_harness

package gorp

import (
	"context"

	"github.com/synnaxlabs/x/kv"
)

//verif:assume instantiation checked: K=uint32, V=int64 (LookupIndex) / V=int64 (SortedIndex)

type verifEntry struct {
	K uint32
	V int64
}

func (e verifEntry) GorpKey() uint32   { return e.K }
func (e verifEntry) SetOptions() []any { return nil }

// verifKVTx is a no-op kv.Tx: the index code only needs commit/close notifications.
type verifKVTx struct{ kv.Tx }

func (verifKVTx) Commit(context.Context, ...any) error { return nil }
func (verifKVTx) Close() error                         { return nil }

func verifNewTx() *tx { return &tx{Tx: verifKVTx{}} }

// reference model: last-write-wins association list
type verifRefEntry struct {
	k       uint32
	v       int64
	deleted bool
}

type verifRef []verifRefEntry

func (r verifRef) get(k uint32) (int64, bool, bool) { // value, present-in-list, deleted
	for i := len(r) - 1; i >= 0; i-- {
		if r[i].k == k {
			return r[i].v, true, r[i].deleted
		}
	}
	return 0, false, false
}

// verifView resolves key k under committed state c overlaid by o.
func verifView(c, o verifRef, k uint32) (int64, bool) {
	if v, ok, del := o.get(k); ok {
		return v, !del
	}
	if v, ok, del := c.get(k); ok {
		return v, !del
	}
	return 0, false
}

func verifHContains(ks []uint32, k uint32) bool {
	for _, x := range ks {
		if x == k {
			return true
		}
	}
	return false
}

func verifHNoDup(ks []uint32) bool {
	for i := range ks {
		for j := 0; j < i; j++ {
			if ks[i] == ks[j] {
				return false
			}
		}
	}
	return true
}

// verifHMatches: got is exactly {k in universe | view(k) in values}, duplicate free.
func verifHMatches(got []uint32, universe []uint32, c, o verifRef, values []int64) bool {
	if !verifHNoDup(got) {
		return false
	}
	for _, k := range universe {
		v, ok := verifView(c, o, k)
		in := false
		if ok {
			for _, q := range values {
				if q == v {
					in = true
				}
			}
		}
		if in != verifHContains(got, k) {
			return false
		}
	}
	for _, k := range got {
		if !verifHContains(universe, k) {
			return false
		}
	}
	return true
}

func verifLookup() *LookupIndex[uint32, verifEntry, int64] {
	idx := NewLookupIndex[uint32, verifEntry, int64]("v", func(e *verifEntry) int64 { return e.V })
	close(idx.populateDone)
	return idx
}

// VerifC17LookupTx: a lookup index answers queries exactly like a scan of (committed state overlaid by the
// transaction's own writes); other transactions and non-transactional readers see committed state only; commit
// publishes the overlay exactly, abort leaves no trace.
func VerifC17LookupTx() {
	idx := verifLookup()
	var committed, overlay verifRef
	var universe []uint32
	nc := verifLen("committed", 0, verifParam("committed", 2))
	for i := 0; i < nc; i++ {
		e := verifEntry{K: verifUint32("ck"), V: verifInt64("cv")}
		universe = append(universe, e.K)
		if verifBool("cdel") {
			idx.delete(e.K)
			committed = append(committed, verifRefEntry{k: e.K, deleted: true})
		} else {
			idx.set(e)
			committed = append(committed, verifRefEntry{k: e.K, v: e.V})
		}
	}
	t1, t2 := verifNewTx(), verifNewTx()
	ns := verifLen("staged", 0, verifParam("staged", 2))
	for i := 0; i < ns; i++ {
		e := verifEntry{K: verifUint32("sk"), V: verifInt64("sv")}
		universe = append(universe, e.K)
		if verifBool("sdel") {
			idx.stageDelete(t1, e.K)
			overlay = append(overlay, verifRefEntry{k: e.K, deleted: true})
		} else {
			idx.stageSet(t1, e)
			overlay = append(overlay, verifRefEntry{k: e.K, v: e.V})
		}
	}
	q := []int64{verifInt64("q1")}
	if verifBool("two-values") {
		q2 := verifInt64("q2")
		verifAssume(q2 != q[0])
		q = append(q, q2)
	}
	own, err := idx.Get(t1, q...)
	verifAssert("own-writes-visible", err == nil && verifHMatches(own, universe, committed, overlay, q))
	other, _ := idx.Get(t2, q...)
	verifAssert("uncommitted-private-other-tx", verifHMatches(other, universe, committed, nil, q))
	none, _ := idx.Get(nil, q...)
	verifAssert("uncommitted-private-no-tx", verifHMatches(none, universe, committed, nil, q))
	if verifBool("commit") {
		_ = t1.Commit(context.Background())
		after, _ := idx.Get(nil, q...)
		verifAssert("commit-publishes-overlay", verifHMatches(after, universe, committed, overlay, q))
		after2, _ := idx.Get(t2, q...)
		verifAssert("commit-visible-to-others", verifHMatches(after2, universe, committed, overlay, q))
	} else {
		_ = t1.Close()
		after, _ := idx.Get(nil, q...)
		verifAssert("abort-vanishes", verifHMatches(after, universe, committed, nil, q))
		again, _ := idx.Get(t1, q...)
		verifAssert("abort-forgets-delta", verifHMatches(again, universe, committed, nil, q))
	}
	// representation invariant L: no empty bucket, forward mirrors reverse
	for v, ks := range idx.forward {
		verifAssert("inv-no-empty-bucket", len(ks) > 0)
		for _, k := range ks {
			rv, ok := idx.reverse[k]
			verifAssert("inv-forward-in-reverse", ok && rv == v)
		}
	}
	for k, v := range idx.reverse {
		verifAssert("inv-reverse-in-forward", verifHContains(idx.forward[v], k))
	}
	verifReach("end")
}

// VerifC17Sorted: the sorted index stays sorted by value and answers point queries like a scan.
func VerifC17Sorted() {
	s := NewSortedIndex[uint32, verifEntry, int64]("v", func(e *verifEntry) int64 { return e.V })
	close(s.populateDone)
	var committed verifRef
	var universe []uint32
	n := verifLen("ops", 0, verifParam("ops", 3))
	for i := 0; i < n; i++ {
		e := verifEntry{K: verifUint32("k"), V: verifInt64("v")}
		universe = append(universe, e.K)
		if verifBool("del") {
			s.delete(e.K)
			committed = append(committed, verifRefEntry{k: e.K, deleted: true})
		} else {
			s.set(e)
			committed = append(committed, verifRefEntry{k: e.K, v: e.V})
		}
	}
	for i := 1; i < len(s.entries); i++ {
		verifAssert("sorted-by-value", s.entries[i-1].value <= s.entries[i].value)
	}
	live := 0
	for i, k := range universe {
		first := true
		for j := 0; j < i; j++ {
			if universe[j] == k {
				first = false
			}
		}
		if _, ok := verifView(committed, nil, k); ok && first {
			live++
		}
	}
	verifAssert("size-matches", len(s.entries) == live && len(s.reverse) == live)
	q := verifInt64("q")
	got, err := s.Get(nil, q)
	verifAssert("point-query-equals-scan", err == nil && verifHMatches(got, universe, committed, nil, []int64{q}))

	// ordered cursor pagination: a walk in either direction, optionally after a cursor, returns exactly the live
	// keys whose value lies strictly beyond the cursor, in value order, cut at the limit
	desc := verifBool("desc")
	hasCursor := verifBool("has-cursor")
	cursor := verifInt64("cursor")
	limit := verifLen("limit", 0, 2) // 0 = unlimited
	dir := DirectionAsc
	if desc {
		dir = DirectionDesc
	}
	oq := s.Ordered(dir)
	if hasCursor {
		oq = oq.After(cursor)
	}
	page := oq.walkOrder(limit)
	eligible := 0
	for i, k := range universe {
		first := true
		for j := 0; j < i; j++ {
			if universe[j] == k {
				first = false
			}
		}
		v, ok := verifView(committed, nil, k)
		if ok && first && (!hasCursor || (!desc && v > cursor) || (desc && v < cursor)) {
			eligible++
		}
	}
	wantLen := eligible
	if limit > 0 && limit < eligible {
		wantLen = limit
	}
	verifAssert("page-length", len(page) == wantLen)
	pageOK := verifHNoDup(page)
	var prev int64
	for i, k := range page {
		v, ok := verifView(committed, nil, k)
		if !ok || (hasCursor && ((!desc && v <= cursor) || (desc && v >= cursor))) {
			pageOK = false
		}
		if i > 0 && ((!desc && v < prev) || (desc && v > prev)) {
			pageOK = false
		}
		prev = v
	}
	verifAssert("page-live-beyond-cursor-in-order", pageOK)
	// nothing closer to the cursor than the page's last element was skipped
	if len(page) > 0 && len(page) == limit {
		last, _ := verifView(committed, nil, page[len(page)-1])
		closer := 0
		for i, k := range universe {
			first := true
			for j := 0; j < i; j++ {
				if universe[j] == k {
					first = false
				}
			}
			v, ok := verifView(committed, nil, k)
			if ok && first && (!hasCursor || (!desc && v > cursor) || (desc && v < cursor)) &&
				((!desc && v < last) || (desc && v > last)) {
				closer++
			}
		}
		verifAssert("page-skips-nothing", closer < limit)
	}
	verifReach("end")
}
