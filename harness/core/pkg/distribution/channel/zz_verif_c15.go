//go:build verif_harness

package channel

import (
	"context"
	"io"

	"github.com/synnaxlabs/aspen"
	xkv "github.com/synnaxlabs/x/kv"
	"github.com/synnaxlabs/x/query"
)

// VerifC15KeyPacking: NewKey / Leaseholder / LocalKey are mutually inverse and NewKey is injective for node keys
// below 2^12 and local keys below 2^20.
func VerifC15KeyPacking() {
	n1, n2 := aspen.NodeKey(verifUint16("n1")), aspen.NodeKey(verifUint16("n2"))
	l1, l2 := LocalKey(verifUint32("l1")), LocalKey(verifUint32("l2"))
	verifAssume(n1 < 1<<12 && n2 < 1<<12 && l1 < 1<<20 && l2 < 1<<20)
	k1, k2 := NewKey(n1, l1), NewKey(n2, l2)
	verifObserve("k1", int64(k1))
	verifAssert("leaseholder-roundtrip", k1.Leaseholder() == n1)
	verifAssert("localkey-roundtrip", k1.LocalKey() == l1)
	verifAssert("lease-is-leaseholder", k1.Lease() == n1)
	verifAssert("injective", (k1 == k2) == (n1 == n2 && l1 == l2))
	verifAssert("free-iff-free-node", k1.Free() == (n1 == aspen.NodeKeyFree))
	verifAssert("storage-key-identity", uint32(k1.StorageKey()) == uint32(k1))
	// any 32-bit key decomposes and recomposes
	k := Key(verifUint32("k"))
	verifAssert("recompose", NewKey(k.Leaseholder(), k.LocalKey()) == k)
	verifReach("end")
}

type verifCounterKV struct {
	xkv.ReadWriter
	val  []byte
	sets int
}

type verifNopCloser struct{}

func (verifNopCloser) Close() error { return nil }

func (kv *verifCounterKV) Get(context.Context, []byte, ...any) ([]byte, io.Closer, error) {
	if kv.val == nil {
		return nil, nil, query.ErrNotFound
	}
	return kv.val, verifNopCloser{}, nil
}

func (kv *verifCounterKV) Set(_ context.Context, _ []byte, v []byte, _ ...any) error {
	kv.val = append([]byte{}, v...)
	kv.sets++
	return nil
}

// VerifC15Counter: the local-key counter never hands out a value above MaxUint20 (it refuses instead), returned
// values strictly increase, and the persisted value follows.
func VerifC15Counter() {
	ctx := context.Background()
	kv := &verifCounterKV{}
	c, err := openCounter(ctx, kv, []byte("c"))
	verifAssume(err == nil)
	start := LocalKey(verifUint32("start"))
	verifAssume(start <= 1<<20-1)
	if start > 0 {
		_, _ = c.add(ctx, start)
	}
	d1, d2 := LocalKey(verifUint32("d1")), LocalKey(verifUint32("d2"))
	v1, e1 := c.add(ctx, d1)
	limit := uint64(1<<20 - 1)
	verifAssert("add-refuses-iff-over-limit", (e1 != nil) == (uint64(start)+uint64(d1) > limit))
	cur := start
	if e1 == nil {
		verifAssert("add-returns-sum", v1 == start+d1)
		verifAssert("add-within-limit", uint64(v1) <= limit)
		cur = v1
	}
	v2, e2 := c.add(ctx, d2)
	verifAssert("second-add-refuses-iff-over-limit", (e2 != nil) == (uint64(cur)+uint64(d2) > limit))
	if e2 == nil {
		verifAssert("second-add-returns-sum", v2 == cur+d2)
		if d2 > 0 {
			verifAssert("strictly-increasing", v2 > cur)
		}
		cur = v2
	}
	// a reopened counter resumes at the same value
	c2, err2 := openCounter(ctx, kv, []byte("c"))
	if kv.sets > 0 {
		verifAssert("persisted", err2 == nil && LocalKey(c2.wrap.Value()) == cur)
	}
	verifReach("end")
}
