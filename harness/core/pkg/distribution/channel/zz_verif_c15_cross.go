//go:build verif_harness

package channel

import (
	"context"

	"github.com/synnaxlabs/cesium"
	"github.com/synnaxlabs/x/gorp"
	xfs "github.com/synnaxlabs/x/io/fs"
	"github.com/synnaxlabs/x/telem"
)

//verif:redirect github.com/synnaxlabs/synnax/pkg/distribution/channel.allLiteralNames github.com/synnaxlabs/synnax/pkg/distribution/channel.verifNotLiteral only=VerifC15CrossStore
//verif:redirect github.com/synnaxlabs/synnax/pkg/distribution/channel.formatNameMatcher github.com/synnaxlabs/synnax/pkg/distribution/channel.verifExactMatcher only=VerifC15CrossStore
//verif:assume VerifC15CrossStore: the leaseholder's gateway handlers (createGateway / deleteGateway) run against the real gorp table code over VerifKV and a real cesium engine assembled over MemFS (no relay/GC goroutines, stub meta codec); no ontology or group service is configured (their bookkeeping is skipped by the handlers themselves); names are matched by equality

// VerifC15CrossStore: after any short history of batched creates (index, indexed data and virtual channels;
// plain, retrieve-if-name-exists and overwrite options) and deletes issued on the leaseholder, the channels in
// the metadata table are exactly the channels in the leaseholder's engine — same key, data type, index,
// virtual flag and name — all keys are distinct, and a deleted channel is in neither store.
func VerifC15CrossStore() {
	ctx := context.Background()
	store := &gorp.VerifKV{}
	db := gorp.VerifOpenDB(store, verifChanCodec())
	s := VerifNewService(db)
	// the handlers run inside a transaction that the caller aborts when they fail: a failed handler's metadata
	// writes are discarded
	var snapK, snapV [][]byte
	begin := func() { snapK, snapV = append([][]byte{}, store.Keys...), append([][]byte{}, store.Vals...) }
	failed := false // some handler failed: its metadata writes were rolled back, its engine changes were not
	abort := func() { store.Keys, store.Vals = snapK, snapV; failed = true }
	s.cfg.TSChannel = cesium.HarnessNewDB(xfs.NewMem())
	ckv := &verifCounterKV{}
	cnt, err := openCounter(ctx, ckv, []byte("c"))
	verifAssume(err == nil)
	s.leasedCounter = cnt
	names := []string{"a-1", "b-1", "c-1"}
	steps := verifParam("steps", 2)
	var created []Key // every key ever handed out
	for st := 0; st < steps; st++ {
		if st > 0 && len(created) > 0 && verifBool("delete") {
			k := created[verifLen("delete.which", 0, len(created)-1)]
			// deleting an index that still indexes a stored channel is refused by the engine; either way the
			// stores must agree afterwards
			begin()
			if err := s.deleteGateway(ctx, db, Keys{k}); err != nil {
				abort()
			}
			continue
		}
		// a batch: an index channel, optionally followed by a data channel on it and/or a virtual channel
		batch := []Channel{{Name: names[verifLen("index.name", 0, 2)], Leaseholder: 1, IsIndex: true, DataType: telem.TimeStampT}}
		withData, withVirtual := verifBool("with-data"), verifBool("with-virtual")
		if withVirtual {
			batch = append(batch, Channel{Name: names[verifLen("virtual.name", 0, 2)], Leaseholder: 1, Virtual: true, DataType: telem.Int64T})
		}
		opts := CreateOptions{}
		switch verifLen("option", 0, 2) {
		case 1:
			opts.RetrieveIfNameExists = true
		case 2:
			opts.OverwriteIfNameExistsAndDifferentProperties = true
		}
		begin()
		if err := s.createGateway(ctx, db, &batch, opts); err != nil {
			abort()
			continue
		}
		for _, ch := range batch {
			created = append(created, ch.Key())
		}
		if withData { // a data channel needs its index key, which the first create just assigned
			data := []Channel{{Name: names[verifLen("data.name", 0, 2)], Leaseholder: 1, DataType: telem.Int64T, LocalIndex: batch[0].LocalKey}}
			begin()
			if err := s.createGateway(ctx, db, &data, opts); err == nil {
				created = append(created, data[0].Key())
			} else {
				abort()
			}
		}
	}
	// compare the two stores
	var meta []Channel
	verifAssert("metadata-scan-ok", s.table.NewRetrieve().Entries(&meta).Exec(ctx, db) == nil)
	engine := cesium.HarnessChannels(s.cfg.TSChannel)
	same := len(meta) == len(engine)
	for _, m := range meta {
		found := false
		for _, e := range engine {
			if e.Key == m.Key().StorageKey() {
				found = true
				if e.Name != m.Name || e.DataType != m.DataType || e.Virtual != m.Virtual || e.IsIndex != m.IsIndex ||
					uint32(e.Index) != uint32(m.Index()) {
					same = false
				}
			}
		}
		if !found {
			same = false
		}
	}
	verifObserve("meta", int64(len(meta)))
	verifObserve("engine", int64(len(engine)))
	// Known finding C15-engine-not-rolled-back: the handlers change the engine before (create, overwrite) or
	// after (delete) the metadata inside a metadata transaction; when a later step of the same handler fails,
	// the transaction is aborted but the engine keeps the change. Histories in which every handler succeeded
	// are checked without exception.
	verifAssertKnown("metadata-and-engine-hold-the-same-channels", same, "C15-engine-not-rolled-back", failed)
	distinct := true
	for i := range meta {
		for j := 0; j < i; j++ {
			if meta[i].Key() == meta[j].Key() {
				distinct = false
			}
		}
	}
	verifAssert("stored-keys-distinct", distinct)
	verifReach("end")
}
