//go:build verif_harness

package channel

import (
	"context"

	"github.com/synnaxlabs/x/errors"
	"github.com/synnaxlabs/x/gorp"
	"github.com/synnaxlabs/x/set"
	"github.com/synnaxlabs/x/types"
)

//verif:redirect github.com/synnaxlabs/synnax/pkg/distribution/channel.allLiteralNames github.com/synnaxlabs/synnax/pkg/distribution/channel.verifNotLiteral only=VerifC15AssignKeys
//verif:redirect github.com/synnaxlabs/synnax/pkg/distribution/channel.formatNameMatcher github.com/synnaxlabs/synnax/pkg/distribution/channel.verifExactMatcher only=VerifC15AssignKeys
//verif:assume VerifC15AssignKeys: channel names are matched by string equality (the name index and the regexp matcher are replaced; C17 covers the index), the metadata table is the real gorp code over gorp.VerifKV with an ideal handle codec

// verifNotLiteral sends MatchNames down the per-entry matcher path (a table scan through the real gorp code).
func verifNotLiteral([]string) bool { return false }

// verifExactMatcher stands in for the regexp-based matcher: harness names contain no metacharacters.
func verifExactMatcher(name string) func(string) bool {
	return func(s string) bool { return s == name }
}

var verifChanVals []Channel

func verifChanCodec() gorp.VerifCodec {
	verifChanVals = nil
	return gorp.VerifCodec{
		Enc: func(v any) ([]byte, error) {
			if x, ok := v.(Channel); ok {
				verifChanVals = append(verifChanVals, x)
				return []byte{byte(len(verifChanVals) - 1)}, nil
			}
			return nil, errors.New("verif codec: unsupported type")
		},
		Dec: func(b []byte, v any) error {
			if p, ok := v.(*Channel); ok && len(b) == 1 {
				*p = verifChanVals[b[0]]
				return nil
			}
			return errors.New("verif codec: unsupported type")
		},
	}
}

// VerifC15AssignKeys: a batch create on a leaseholder that already stores some channels assigns to every new
// channel a local key that is fresh (above the counter, never one of an existing channel, no two alike), leaves
// retrieved channels with their stored keys, and advances the persisted counter exactly past the highest key
// handed out — for every mix of new names, names that already exist (RetrieveIfNameExists on and off) and
// repeated names inside the batch.
func VerifC15AssignKeys() {
	ctx := context.Background()
	store := &gorp.VerifKV{}
	db := gorp.VerifOpenDB(store, verifChanCodec())
	table := gorp.VerifOpenTable[Key, Channel](db)
	svc := &Service{db: db, table: table}
	ckv := &verifCounterKV{}
	cnt, err := openCounter(ctx, ckv, []byte("c"))
	verifAssume(err == nil)

	// names outside the "literal" character set, so that the native build also takes the per-entry matcher
	// path (where "^a-1$" is an exact match), and free of regexp metacharacters
	names := []string{"a-1", "b-1", "c-1", "d-1"}
	// channels already stored on this leaseholder: local keys 1..ne, any of the names (duplicates allowed:
	// name validation can be off)
	ne := verifLen("existing", 0, verifParam("existing", 2))
	if ne > 0 {
		_, err = cnt.add(ctx, LocalKey(ne))
		verifAssume(err == nil)
	}
	existing := make([]Channel, ne)
	for i := range existing {
		existing[i] = Channel{Name: names[verifLen("existing-name", 0, 3)], Leaseholder: 1, LocalKey: LocalKey(i + 1)}
		if err = table.NewCreate().Entry(&existing[i]).Exec(ctx, db); err != nil {
			panic(err)
		}
	}
	nb := verifLen("batch", 1, verifParam("batch", 3))
	batch := make([]Channel, nb)
	for i := range batch {
		batch[i] = Channel{Name: names[verifLen("batch-name", 0, 3)], Leaseholder: 1, IsIndex: verifBool("is-index")}
	}
	retrieveIfExists := verifBool("retrieve-if-name-exists")
	before := LocalKey(cnt.wrap.Value())

	toCreate, err := svc.retrieveExistingAndAssignKeys(ctx, db, &batch, cnt, retrieveIfExists)
	verifAssert("assign-no-error", err == nil)
	if err != nil {
		return
	}
	after := LocalKey(cnt.wrap.Value())
	isExisting := func(k LocalKey) bool { return k >= 1 && int(k) <= ne }
	fresh, distinct, retrievedRight, indexRight := true, true, true, true
	var highest LocalKey
	created := 0
	for i, ch := range batch {
		if ch.LocalKey == 0 {
			fresh = false
		}
		if isExisting(ch.LocalKey) {
			// only legitimate as the stored channel of that name, and only when asked to retrieve
			if !retrieveIfExists || existing[ch.LocalKey-1].Name != ch.Name {
				retrievedRight = false
			}
		} else {
			created++
			if ch.LocalKey <= before {
				fresh = false
			}
			if ch.LocalKey > highest {
				highest = ch.LocalKey
			}
			for j := 0; j < i; j++ {
				if batch[j].LocalKey == ch.LocalKey {
					distinct = false
				}
			}
		}
		if ch.IsIndex && ch.LocalIndex != ch.LocalKey {
			indexRight = false
		}
	}
	verifObserve("created", int64(created))
	verifAssert("new-keys-above-counter", fresh)
	verifAssert("new-keys-distinct", distinct)
	verifAssert("existing-keys-only-for-retrieved-names", retrievedRight)
	verifAssert("index-channels-index-themselves", indexRight)
	verifAssert("to-create-is-the-new-ones", len(toCreate) == created)
	verifAssert("counter-never-behind-highest-key", after >= highest)
	verifAssert("counter-advances-by-created", int(after-before) == created)
	verifReach("end")
}

// VerifNewService builds a channel service whose metadata table is the real gorp code over db (no indexes, no
// ontology, no storage engine): enough for the retrieval paths used by the framer services.
func VerifNewService(db *gorp.DB) *Service {
	s := &Service{db: db, table: gorp.VerifOpenTable[Key, Channel](db)}
	s.cfg.IntOverflowCheck = func(types.Uint20) error { return nil }
	s.mu.externalNonVirtualSet = set.NewInteger[Key](nil)
	return s
}

// VerifStoreChannel writes a channel row directly into the metadata table.
func VerifStoreChannel(ctx context.Context, s *Service, ch Channel) error {
	return s.table.NewCreate().Entry(&ch).Exec(ctx, s.db)
}

// HarnessChanCodec is the ideal handle codec for Channel rows (see verifChanCodec).
func HarnessChanCodec() gorp.VerifCodec { return verifChanCodec() }
