//go:build verif_harness

package channel

import (
	"context"

	"github.com/synnaxlabs/aspen"
	"github.com/synnaxlabs/cesium"
	"github.com/synnaxlabs/synnax/pkg/distribution/proxy"
	"github.com/synnaxlabs/x/address"
	"github.com/synnaxlabs/x/errors"
	"github.com/synnaxlabs/x/gorp"
	xfs "github.com/synnaxlabs/x/io/fs"
	"github.com/synnaxlabs/x/telem"
)

//verif:assume VerifC15NameUnique: single node (host key 1, no peers, no free channels), Service.create with name validation on, over the real gorp table code with the real name index (VerifKV) and a real cesium engine over MemFS

type verifHost struct{}

func (verifHost) Resolve(aspen.NodeKey) (address.Address, error) { return "", errors.New("verif: no peers") }
func (verifHost) Host() aspen.Node                                { return aspen.Node{Key: 1} }
func (verifHost) HostKey() aspen.NodeKey                          { return 1 }

// VerifC15NameUnique: with name validation on, a plain create is accepted exactly when no existing channel has
// the submitted name — whatever key and leaseholder fields the submitted struct carries (a caller that reuses
// the struct of an earlier create submits that channel's key). After the second create no two channels share a
// name, and a refused create changes nothing.
func VerifC15NameUnique() {
	ctx := context.Background()
	store := &gorp.VerifKV{}
	db := gorp.VerifOpenDB(store, verifChanCodec())
	s := VerifNewService(db)
	s.indexes = newIndexes()
	s.table = gorp.VerifOpenTableWith[Key, Channel](db, s.indexes.all()...)
	yes := true
	s.cfg.ValidateNames = &yes
	s.cfg.HostResolver = verifHost{}
	s.createRouter = proxy.BatchFactory[Channel]{Host: 1}
	s.cfg.TSChannel = cesium.HarnessNewDB(xfs.NewMem())
	ckv := &verifCounterKV{}
	cnt, err := openCounter(ctx, ckv, []byte("c"))
	verifAssume(err == nil)
	s.leasedCounter = cnt
	names := []string{"a_1", "b_1"}
	mk := func(label string) Channel {
		ch := Channel{Name: names[verifLen(label+".name", 0, 1)], DataType: telem.Int64T}
		if verifBool(label + ".index") {
			ch.IsIndex, ch.DataType = true, telem.TimeStampT
		} else {
			ch.Virtual = true
		}
		return ch
	}
	first := []Channel{mk("first")}
	verifAssert("first-create-accepted", s.create(ctx, db, &first, CreateOptions{}) == nil)
	second := []Channel{mk("second")}
	carried := verifBool("second.carries-the-first-key")
	if carried {
		second[0].Leaseholder, second[0].LocalKey = first[0].Leaseholder, first[0].LocalKey
	}
	taken := second[0].Name == first[0].Name
	err2 := s.create(ctx, db, &second, CreateOptions{})
	verifObserveBool("second-err", err2 != nil)
	// Known finding C15-create-with-existing-key-duplicates-name: a struct that carries the key of the existing
	// holder of its name is exempted from the conflict check and then given a fresh key.
	const finding = "C15-create-with-existing-key-duplicates-name"
	known := taken && carried
	verifAssertKnown("create-accepted-iff-name-free", (err2 == nil) == !taken, finding, known)
	// (the refusal is a validate.PathError, which errors.Is does not see through: the error kind is not asserted)
	var meta []Channel
	verifAssert("metadata-scan-ok", s.table.NewRetrieve().Entries(&meta).Exec(ctx, db) == nil)
	unique := true
	for i := range meta {
		for j := 0; j < i; j++ {
			if meta[i].Name == meta[j].Name {
				unique = false
			}
		}
	}
	verifAssertKnown("no-two-channels-share-a-name", unique, finding, known)
	want := 2
	if taken {
		want = 1
	}
	verifAssertKnown("refused-create-changes-nothing", len(meta) == want && len(cesium.HarnessChannels(s.cfg.TSChannel)) == want, finding, known)
	verifReach("end")
}
