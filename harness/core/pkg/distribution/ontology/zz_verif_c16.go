//go:build verif_harness

package ontology

import (
	"context"

	"github.com/synnaxlabs/x/errors"
	"github.com/synnaxlabs/x/gorp"
	"github.com/synnaxlabs/x/graph"
	"github.com/synnaxlabs/x/query"
)

//verif:assume entry codec is an ideal (injective) handle codec in place of orc/msgpack
//verif:assume key-value engine modelled by gorp.VerifKV (insertion-order iteration)

var (
	verifResVals []Resource
	verifRelVals []Relationship
)

func verifCodec() gorp.VerifCodec {
	verifResVals, verifRelVals = nil, nil
	return gorp.VerifCodec{
		Enc: func(v any) ([]byte, error) {
			switch x := v.(type) {
			case Resource:
				verifResVals = append(verifResVals, x)
				return []byte{0, byte(len(verifResVals) - 1)}, nil
			case Relationship:
				verifRelVals = append(verifRelVals, x)
				return []byte{1, byte(len(verifRelVals) - 1)}, nil
			}
			return nil, errors.New("verif codec: unsupported type")
		},
		Dec: func(b []byte, v any) error {
			switch p := v.(type) {
			case *Resource:
				if len(b) != 2 || b[0] != 0 {
					return errors.New("verif codec: not a resource")
				}
				*p = verifResVals[b[1]]
				return nil
			case *Relationship:
				if len(b) != 2 || b[0] != 1 {
					return errors.New("verif codec: not a relationship")
				}
				*p = verifRelVals[b[1]]
				return nil
			}
			return errors.New("verif codec: unsupported type")
		},
	}
}

func verifWriter() (dagWriter, *gorp.VerifKV) {
	store := &gorp.VerifKV{}
	db := gorp.VerifOpenDB(store, verifCodec())
	return dagWriter{
		tx:                db,
		resourceTable:     gorp.VerifOpenTable[string, Resource](db),
		relationshipTable: gorp.VerifOpenTable[string, Relationship](db),
	}, store
}

// verifIDOfLen: type is one symbolic byte, key has klen symbolic bytes; identifiers never contain '>' (so the
// separator "->" cannot occur inside one) and types never contain ':'.
func verifIDOfLen(label string, klen int) ID {
	t := verifString(label+".type", 1)
	k := verifString(label+".key", klen)
	verifAssume(t[0] != '>' && t[0] != ':')
	for i := 0; i < len(k); i++ {
		verifAssume(k[i] != '>')
	}
	return ID{Type: ResourceType(t), Key: k}
}

func verifID(label string) ID { return verifIDOfLen(label, verifLen(label+".klen", 1, verifParam("klen", 2))) }

const verifParent RelationshipType = "parent"

const verifOther RelationshipType = "labeled_by"

func verifHasEdgeT(d dagWriter, from ID, t RelationshipType, to ID) bool {
	ok, err := d.relationshipTable.NewRetrieve().
		Where(gorp.MatchKeys[string, Relationship](Relationship{From: from, Type: t, To: to}.GorpKey())).
		Exists(context.Background(), d.tx)
	return err == nil && ok
}

func verifHasEdge(d dagWriter, from, to ID) bool { return verifHasEdgeT(d, from, verifParent, to) }

// VerifC16Define: DefineRelationship over three distinct resources and an arbitrary acyclic set of existing
// edges adds the edge exactly when it closes no cycle, reports a cyclic dependency exactly when it would, and
// never changes anything else. The resource identifiers are symbolic strings (prefixes of one another allowed);
// existing edges and the new edge are each of one of two relationship types.
func VerifC16Define() {
	ctx := context.Background()
	d, _ := verifWriter()
	ids := []ID{verifID("a"), verifID("b"), verifID("c")}
	verifAssume(ids[0] != ids[1] && ids[0] != ids[2] && ids[1] != ids[2])
	for _, id := range ids {
		verifAssume(d.DefineResource(ctx, id) == nil)
	}
	// existing edges: any subset of the forward edges of the order a < b < c (every DAG on 3 nodes up to renaming)
	// each edge is of one of two relationship types: a cycle is a cycle whatever the types along it
	types := [2]RelationshipType{verifParent, verifOther}
	var adj [3][3]bool
	var adjT [3][3]int
	for i := 0; i < 3; i++ {
		for j := i + 1; j < 3; j++ {
			if verifBool("edge") {
				adj[i][j] = true
				if verifBool("edge-other-type") {
					adjT[i][j] = 1
				}
				verifAssume(d.relationshipTable.NewCreate().Entry(&Relationship{From: ids[i], Type: types[adjT[i][j]], To: ids[j]}).Exec(ctx, d.tx) == nil)
			}
		}
	}
	nt := 0
	if verifBool("new-other-type") {
		nt = 1
	}
	fi, ti := verifLen("from", 0, 2), verifLen("to", 0, 2)
	if verifParam("selfloop", 1) == 0 {
		verifAssume(fi != ti)
	}
	// reachability to ~> from in the reference graph
	reach := adj
	for k := 0; k < 3; k++ {
		for i := 0; i < 3; i++ {
			for j := 0; j < 3; j++ {
				if reach[i][k] && reach[k][j] {
					reach[i][j] = true
				}
			}
		}
	}
	err := d.DefineRelationship(ctx, ids[fi], types[nt], ids[ti])
	verifObserveBool("err", err != nil)
	switch {
	case fi == ti:
		verifAssert("define-self-loop-rejected", err != nil)
	case adj[fi][ti] && adjT[fi][ti] == nt:
		verifAssert("define-existing-is-noop", err == nil)
	case reach[ti][fi]:
		verifAssert("define-cycle-rejected", err != nil && errors.Is(err, graph.ErrCyclicDependency))
	default:
		verifAssert("define-acyclic-accepted", err == nil)
	}
	for i := 0; i < 3; i++ {
		for j := 0; j < 3; j++ {
			if i == j {
				continue
			}
			for t := 0; t < 2; t++ {
				want := (adj[i][j] && adjT[i][j] == t) || (err == nil && i == fi && j == ti && t == nt)
				verifAssert("define-edges-exact", verifHasEdgeT(d, ids[i], types[t], ids[j]) == want)
			}
		}
	}
	verifReach("end")
}

// VerifC16DeleteResource: deleting a resource removes it and exactly the edges touching it.
func VerifC16DeleteResource() {
	ctx := context.Background()
	d, _ := verifWriter()
	ids := []ID{verifID("a"), verifID("b"), verifID("c")}
	verifAssume(ids[0] != ids[1] && ids[0] != ids[2] && ids[1] != ids[2])
	for _, id := range ids {
		verifAssume(d.DefineResource(ctx, id) == nil)
	}
	var adj [3][3]bool
	for i := 0; i < 3; i++ {
		for j := 0; j < 3; j++ {
			if i != j && verifBool("edge") {
				adj[i][j] = true
				verifAssume(d.relationshipTable.NewCreate().Entry(&Relationship{From: ids[i], Type: verifParent, To: ids[j]}).Exec(ctx, d.tx) == nil)
			}
		}
	}
	del := verifLen("delete", 0, 2)
	err := d.DeleteResource(ctx, ids[del])
	verifAssert("delete-no-error", err == nil)
	for i := 0; i < 3; i++ {
		has, herr := d.HasResource(ctx, ids[i])
		verifAssert("delete-resources-exact", herr == nil && has == (i != del))
		for j := 0; j < 3; j++ {
			if i != j {
				verifAssert("delete-edges-exact", verifHasEdge(d, ids[i], ids[j]) == (adj[i][j] && i != del && j != del))
			}
		}
	}
	_ = query.ErrNotFound
	verifReach("end")
}

// VerifC16DefineShapes: cycle detection over every DAG on n concrete resources (every subset of the forward edges
// of a fixed order) and every ordered pair: an edge is accepted exactly when it closes no cycle.
func VerifC16DefineShapes() {
	ctx := context.Background()
	n := verifParam("nodes", 5)
	d, _ := verifWriter()
	ids := make([]ID, n)
	for i := range ids {
		ids[i] = ID{Type: "t", Key: string(rune('a' + i))}
		verifAssume(d.DefineResource(ctx, ids[i]) == nil)
	}
	adj := make([][]bool, n)
	for i := range adj {
		adj[i] = make([]bool, n)
	}
	for i := 0; i < n; i++ {
		for j := i + 1; j < n; j++ {
			if verifBool("edge") {
				adj[i][j] = true
				verifAssume(d.relationshipTable.NewCreate().Entry(&Relationship{From: ids[i], Type: verifParent, To: ids[j]}).Exec(ctx, d.tx) == nil)
			}
		}
	}
	reach := make([][]bool, n)
	for i := range reach {
		reach[i] = append([]bool{}, adj[i]...)
	}
	for k := 0; k < n; k++ {
		for i := 0; i < n; i++ {
			for j := 0; j < n; j++ {
				if reach[i][k] && reach[k][j] {
					reach[i][j] = true
				}
			}
		}
	}
	fi, ti := verifLen("from", 0, n-1), verifLen("to", 0, n-1)
	verifAssume(fi != ti)
	err := d.DefineRelationship(ctx, ids[fi], verifParent, ids[ti])
	verifObserveBool("err", err != nil)
	switch {
	case adj[fi][ti]:
		verifAssert("shapes-existing-is-noop", err == nil)
	case reach[ti][fi]:
		verifAssert("shapes-cycle-rejected", err != nil && errors.Is(err, graph.ErrCyclicDependency))
	default:
		verifAssert("shapes-acyclic-accepted", err == nil)
	}
	verifAssert("shapes-edge-present-iff-accepted", verifHasEdge(d, ids[fi], ids[ti]) == (adj[fi][ti] || err == nil))
	verifReach("end")
}

// VerifC16DefineBranching: cycle detection below a branching target. Six concrete resources: a root with two
// children a and b, and every set of edges from a and b (and between them) to three leaves. For every ordered pair
// an edge is accepted exactly when it closes no cycle — in particular an edge from a node reachable only through
// the second child back to the root is refused whatever the first child's fan-out is (a descendant walk that
// loses part of a level while it expands another part is caught here).
func VerifC16DefineBranching() {
	ctx := context.Background()
	const n = 6
	d, _ := verifWriter()
	ids := make([]ID, n)
	for i := range ids {
		ids[i] = ID{Type: "t", Key: string(rune('a' + i))}
		verifAssume(d.DefineResource(ctx, ids[i]) == nil)
	}
	var adj [n][n]bool
	put := func(i, j int) {
		adj[i][j] = true
		verifAssume(d.relationshipTable.NewCreate().Entry(&Relationship{From: ids[i], Type: verifParent, To: ids[j]}).Exec(ctx, d.tx) == nil)
	}
	put(0, 1)
	put(0, 2)
	if verifBool("edge") {
		put(1, 2)
	}
	for _, i := range []int{1, 2} {
		for j := 3; j < n; j++ {
			if verifBool("edge") {
				put(i, j)
			}
		}
	}
	var reach [n][n]bool
	reach = adj
	for k := 0; k < n; k++ {
		for i := 0; i < n; i++ {
			for j := 0; j < n; j++ {
				if reach[i][k] && reach[k][j] {
					reach[i][j] = true
				}
			}
		}
	}
	fi, ti := verifLen("from", 0, n-1), verifLen("to", 0, n-1)
	verifAssume(fi != ti)
	err := d.DefineRelationship(ctx, ids[fi], verifParent, ids[ti])
	verifObserveBool("err", err != nil)
	switch {
	case adj[fi][ti]:
		verifAssert("branching-existing-is-noop", err == nil)
	case reach[ti][fi]:
		verifAssert("branching-cycle-rejected", err != nil && errors.Is(err, graph.ErrCyclicDependency))
	default:
		verifAssert("branching-acyclic-accepted", err == nil)
	}
	verifAssert("branching-edge-present-iff-accepted", verifHasEdge(d, ids[fi], ids[ti]) == (adj[fi][ti] || err == nil))
	verifReach("end")
}
