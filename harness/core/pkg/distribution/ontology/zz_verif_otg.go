//go:build verif_harness

package ontology

import "github.com/synnaxlabs/x/gorp"

// VerifNewOntology builds an Ontology over db without migrations, observers, search or secondary indexes (the
// traversers then fall back to their prefix / scan paths, which parse the stored bytes).
func VerifNewOntology(db *gorp.DB) *Ontology {
	return &Ontology{
		Config:            Config{DB: db},
		registrar:         serviceRegistrar{},
		resourceTable:     gorp.VerifOpenTable[string, Resource](db),
		relationshipTable: gorp.VerifOpenTable[string, Relationship](db),
	}
}

// VerifRegister registers a resource service without subscribing to its change feed.
func VerifRegister(o *Ontology, svc Service) { o.registrar.register(svc) }
