//go:build verif_harness

package ontology

import (
	"context"

	"github.com/synnaxlabs/x/encoding/orc"
	"github.com/synnaxlabs/x/gorp"
)

//verif:assume VerifC16Traverse: key-value engine modelled by gorp.VerifKV; entries are stored with the real orc codec; no relationship indexes (the parents traversal scans and parses the stored bytes, the children traversal scans by key prefix)

// VerifC16Traverse: over three resources with symbolic identifiers (prefixes of one another allowed) and an
// arbitrary set of parent edges among them, optionally after deleting one resource, the parents and the children
// of each surviving resource returned by Retrieve.TraverseTo are exactly those of a plain graph search over the
// surviving resources; a deleted resource is never returned nor passed through.
func VerifC16Traverse() {
	ctx := context.Background()
	store := &gorp.VerifKV{}
	db := gorp.VerifOpenDBWith(store, orc.Codec)
	otg := VerifNewOntology(db)
	w := otg.NewWriter(nil)
	ids := []ID{verifID("a"), verifID("b"), verifID("c")}
	verifAssume(ids[0] != ids[1] && ids[0] != ids[2] && ids[1] != ids[2])
	for _, id := range ids {
		verifAssume(w.DefineResource(ctx, id) == nil)
	}
	var adj [3][3]bool
	for i := 0; i < 3; i++ {
		for j := i + 1; j < 3; j++ {
			if verifBool("edge") {
				adj[i][j] = true
				verifAssume(w.DefineRelationship(ctx, ids[i], RelationshipTypeParentOf, ids[j]) == nil)
			}
		}
	}
	alive := [3]bool{true, true, true}
	if verifBool("delete-one") {
		del := verifLen("delete", 0, 2)
		verifAssume(w.DeleteResource(ctx, ids[del]) == nil)
		alive[del] = false
	}
	q := verifLen("query", 0, 2)
	verifAssume(alive[q])
	find := func(id ID) int {
		for i := range ids {
			if ids[i] == id {
				return i
			}
		}
		return -1
	}
	check := func(label string, t Traverser, want func(i int) bool) {
		var res []Resource
		err := otg.NewRetrieve().WhereIDs(ids[q]).ExcludeFieldData(true).TraverseTo(t).ExcludeFieldData(true).Entries(&res).Exec(ctx, nil)
		verifAssert(label+"-no-error", err == nil)
		var seen [3]int
		foreign := false
		for _, r := range res {
			i := find(r.ID)
			if i < 0 {
				foreign = true
				continue
			}
			seen[i]++
		}
		exact := !foreign
		for i := range ids {
			w := alive[i] && want(i)
			if (seen[i] > 0) != w || seen[i] > 1 {
				exact = false
			}
		}
		verifAssert(label+"-exact", exact)
	}
	check("children", ChildrenTraverser, func(i int) bool { return adj[q][i] })
	check("parents", ParentsTraverser, func(i int) bool { return adj[i][q] })
	verifReach("end")
}
