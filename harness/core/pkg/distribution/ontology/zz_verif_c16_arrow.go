//go:build verif_harness

package ontology

import (
	"context"

	"github.com/synnaxlabs/x/encoding/orc"
	"github.com/synnaxlabs/x/gorp"
)

// VerifC16ArrowKeys: resource keys are free-form strings (device and status keys are chosen by callers), so a key
// may contain the two characters "->" that separate the parts of a relationship's storage key. Resources
// a = t:k, b = t:k'->s and c = u:x with symbolic bytes (k' may equal k, making a's identifier a prefix of b's up
// to the separator), one edge b -> c. Defining c -> a closes no cycle and must succeed; the parents of c are
// exactly {b}; deleting the isolated resource a leaves the children of b exactly {c}.
func VerifC16ArrowKeys() {
	ctx := context.Background()
	store := &gorp.VerifKV{}
	db := gorp.VerifOpenDBWith(store, orc.Codec)
	otg := VerifNewOntology(db)
	w := otg.NewWriter(nil)
	clean := func(s string) string {
		for i := 0; i < len(s); i++ {
			verifAssume(s[i] != '>' && s[i] != ':' && s[i] != '-')
		}
		return s
	}
	t, u := clean(verifString("t", 1)), clean(verifString("u", 1))
	a := ID{Type: ResourceType(t), Key: clean(verifString("a.key", 1))}
	b := ID{Type: ResourceType(t), Key: clean(verifString("b.key", 1)) + "->" + clean(verifString("b.tail", 1))}
	c := ID{Type: ResourceType(u), Key: clean(verifString("c.key", 1))}
	verifAssume(a != c)
	for _, id := range []ID{a, b, c} {
		verifAssume(w.DefineResource(ctx, id) == nil)
	}
	verifAssume(w.DefineRelationship(ctx, b, RelationshipTypeParentOf, c) == nil)
	known := a.Type == b.Type && a.Key == b.Key[:1]
	const finding = "C16-separator-inside-resource-key"
	ids := func(res []Resource) (hasB, hasC, other bool, n int) {
		for _, r := range res {
			switch r.ID {
			case b:
				hasB = true
			case c:
				hasC = true
			default:
				other = true
			}
			n++
		}
		return
	}
	step := verifLen("step", 0, 2)
	switch step {
	case 0:
		err := w.DefineRelationship(ctx, c, RelationshipTypeParentOf, a)
		verifObserveBool("define-err", err != nil)
		verifAssertKnown("edge-that-closes-no-cycle-is-accepted", err == nil, finding, known)
	case 1:
		var res []Resource
		err := otg.NewRetrieve().WhereIDs(c).ExcludeFieldData(true).TraverseTo(ParentsTraverser).ExcludeFieldData(true).Entries(&res).Exec(ctx, nil)
		hasB, _, other, n := ids(res)
		verifAssertKnown("parents-of-c-no-error", err == nil, finding, true)
		verifAssertKnown("parents-of-c-are-exactly-b", hasB && !other && n == 1, finding, true)
	case 2:
		verifAssert("delete-isolated-resource-ok", w.DeleteResource(ctx, a) == nil)
		var res []Resource
		err := otg.NewRetrieve().WhereIDs(b).ExcludeFieldData(true).TraverseTo(ChildrenTraverser).ExcludeFieldData(true).Entries(&res).Exec(ctx, nil)
		_, hasC, other, n := ids(res)
		verifAssert("children-of-b-no-error", err == nil)
		verifAssertKnown("deleting-an-isolated-resource-keeps-the-edges-of-others", hasC && !other && n == 1, finding, known)
	}
	verifReach("end")
}
