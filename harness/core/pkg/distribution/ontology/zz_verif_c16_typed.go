//go:build verif_harness

package ontology

import (
	"context"

	"github.com/synnaxlabs/x/encoding/orc"
	"github.com/synnaxlabs/x/gorp"
)

// verifTypedID: a resource identifier whose type has one or two symbolic bytes (so that one type can be a
// proper prefix of another, as "range" / "range-alias" are) and whose key has one symbolic byte.
func verifTypedID(label string) ID {
	t := verifString(label+".type", verifLen(label+".tlen", 1, 2))
	k := verifString(label+".key", 1)
	for i := 0; i < len(t); i++ {
		verifAssume(t[i] != '>' && t[i] != ':' && t[i] != '-')
	}
	verifAssume(k[0] != '>' && k[0] != '-')
	return ID{Type: ResourceType(t), Key: k}
}

// VerifC16TypedTraverse: a traversal narrowed to one resource type. Over one parent and two children whose types
// are symbolic strings of one or two bytes (a type may be a prefix of another), the children of the parent that
// Retrieve.TraverseTo(children).WhereTypes(t) returns are exactly the children whose type is t — the same
// answer whether the type filter is given once or (equivalently) twice — and a plain listing narrowed with
// WhereTypes(t) returns exactly the resources of type t.
func VerifC16TypedTraverse() {
	ctx := context.Background()
	store := &gorp.VerifKV{}
	db := gorp.VerifOpenDBWith(store, orc.Codec)
	otg := VerifNewOntology(db)
	w := otg.NewWriter(nil)
	ids := []ID{verifTypedID("p"), verifTypedID("c1"), verifTypedID("c2")}
	verifAssume(ids[0] != ids[1] && ids[0] != ids[2] && ids[1] != ids[2])
	for _, id := range ids {
		verifAssume(w.DefineResource(ctx, id) == nil)
	}
	verifAssume(w.DefineRelationship(ctx, ids[0], RelationshipTypeParentOf, ids[1]) == nil)
	verifAssume(w.DefineRelationship(ctx, ids[0], RelationshipTypeParentOf, ids[2]) == nil)
	t := ids[1+verifLen("filter-type-of-child", 0, 1)].Type
	exact := func(res []Resource, from int) bool {
		var seen [3]int
		for _, r := range res {
			found := false
			for i := range ids {
				if ids[i] == r.ID {
					seen[i]++
					found = true
				}
			}
			if !found {
				return false
			}
		}
		ok := true
		for i := range ids {
			want := i >= from && ids[i].Type == t
			if (seen[i] == 1) != want || seen[i] > 1 {
				ok = false
			}
		}
		return ok
	}
	var once, twice, listed []Resource
	err := otg.NewRetrieve().WhereIDs(ids[0]).ExcludeFieldData(true).TraverseTo(ChildrenTraverser).WhereTypes(t).ExcludeFieldData(true).Entries(&once).Exec(ctx, nil)
	verifAssert("typed-children-no-error", err == nil)
	verifAssert("typed-children-are-exactly-the-children-of-that-type", exact(once, 1))
	err = otg.NewRetrieve().WhereIDs(ids[0]).ExcludeFieldData(true).TraverseTo(ChildrenTraverser).WhereTypes(t, t).ExcludeFieldData(true).Entries(&twice).Exec(ctx, nil)
	verifAssert("typed-children-twice-no-error", err == nil)
	verifAssert("typed-children-same-answer-with-the-type-listed-twice", exact(twice, 1))
	err = otg.NewRetrieve().WhereTypes(t).ExcludeFieldData(true).Entries(&listed).Exec(ctx, nil)
	verifAssert("typed-listing-no-error", err == nil)
	verifAssert("typed-listing-is-exactly-the-resources-of-that-type", exact(listed, 0))
	verifReach("end")
}
