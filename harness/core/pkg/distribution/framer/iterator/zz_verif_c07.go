//go:build verif_harness

package iterator

import (
	"context"

	"github.com/synnaxlabs/x/errors"
)

// VerifC07IteratorSync: acknowledgements are forwarded once per sequence number, after every leaseholder
// answered, and report success only when every leaseholder succeeded; data responses pass through.
func VerifC07IteratorSync() {
	n := verifLen("nodes", 1, verifParam("nodes", 3))
	s := &synchronizer{nodeCount: n}
	ctx := context.Background()
	for round := 1; round <= 2; round++ {
		all := true
		anyErr := false
		for i := 0; i < n; i++ {
			if round == 1 && verifBool("data-interleaved") {
				d, ok, _ := s.sync(ctx, Response{Variant: ResponseVariantData, SeqNum: round})
				verifAssert("data-passes-through", ok && d.Variant == ResponseVariantData)
			}
			r := Response{Variant: ResponseVariantAck, SeqNum: round, Ack: verifBool("ack"), Command: CommandNext}
			if !r.Ack {
				all = false
			}
			if round == 1 && verifBool("failed") {
				r.Error = errors.New("remote iterator failed")
				anyErr = true
			}
			out, ok, err := s.sync(ctx, r)
			verifAssert("sync-no-error", err == nil)
			if i < n-1 {
				verifAssert("sync-not-forwarded-early", !ok)
				continue
			}
			verifAssert("sync-forwarded-when-complete", ok)
			verifObserveBool("out.ack", out.Ack)
			verifAssert("sync-ack-is-conjunction", out.Ack == all && out.SeqNum == round)
			verifAssert("sync-error-reported-iff-any-failed", (out.Error != nil) == anyErr)
		}
	}
	verifReach("end")
}
