//go:build verif_harness

package iterator

import (
	"context"

	"github.com/synnaxlabs/x/errors"
)

// VerifC07IteratorSync: acknowledgements are forwarded once per sequence number, after every leaseholder
// answered; data responses pass through. The merged acknowledgement is what a single store holding all the
// channels reports for the same command: the storage engine reports success when the command succeeded for any
// of its channels (cesium streamIterator.exec*), so the merge over leaseholders is the disjunction — a
// leaseholder whose channels are exhausted must not end a traversal that still returns samples elsewhere.
func VerifC07IteratorSync() {
	n := verifLen("nodes", 1, verifParam("nodes", 3))
	s := &synchronizer{nodeCount: n}
	ctx := context.Background()
	for round := 1; round <= 2; round++ {
		any := false
		anyErr := false
		for i := 0; i < n; i++ {
			if round == 1 && verifBool("data-interleaved") {
				d, ok, _ := s.sync(ctx, Response{Variant: ResponseVariantData, SeqNum: round})
				verifAssert("data-passes-through", ok && d.Variant == ResponseVariantData)
			}
			r := Response{Variant: ResponseVariantAck, SeqNum: round, Ack: verifBool("ack"), Command: CommandNext}
			if r.Ack {
				any = true
			}
			if round == 1 && verifBool("failed") {
				r.Error = errors.New("remote iterator failed")
				anyErr = true
			}
			out, ok, err := s.sync(ctx, r)
			verifAssert("sync-no-error", err == nil)
			if i < n-1 {
				verifAssert("sync-not-forwarded-early", !ok)
				continue
			}
			verifAssert("sync-forwarded-when-complete", ok)
			verifObserveBool("out.ack", out.Ack)
			verifAssert("sync-ack-is-what-one-store-over-all-channels-reports", out.Ack == any && out.SeqNum == round)
			verifAssert("sync-error-reported-iff-any-failed", (out.Error != nil) == anyErr)
		}
	}
	verifReach("end")
}
