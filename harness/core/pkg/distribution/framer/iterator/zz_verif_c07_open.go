//go:build verif_harness

package iterator

import (
	"context"

	"github.com/synnaxlabs/aspen"
	"github.com/synnaxlabs/synnax/pkg/distribution/channel"
	"github.com/synnaxlabs/x/gorp"
)

// VerifC07IteratorOpenValidates: the key validation that guards every iterator open accepts a key list exactly
// when it is non-empty, names no free channel and every key names a stored channel.
func VerifC07IteratorOpenValidates() {
	ctx := context.Background()
	db := gorp.VerifOpenDB(&gorp.VerifKV{}, channel.HarnessChanCodec())
	chs := channel.VerifNewService(db)
	keys := [3]channel.Key{channel.NewKey(1, 1), channel.NewKey(2, 1), channel.NewKey(aspen.NodeKeyFree, 3)} // the last one is free
	var stored [3]bool
	for i, k := range keys {
		if verifBool("stored") {
			stored[i] = true
			if err := channel.VerifStoreChannel(ctx, chs, channel.Channel{Name: "c", Leaseholder: k.Leaseholder(), LocalKey: k.LocalKey()}); err != nil {
				panic(err)
			}
		}
	}
	s := &Service{cfg: ServiceConfig{Channel: chs}}
	n := verifLen("keys", 0, 2)
	req := make(channel.Keys, n)
	allStored, anyFree := true, false
	for i := range req {
		j := verifLen("key", 0, 2)
		req[i] = keys[j]
		if !stored[j] {
			allStored = false
		}
		if j == 2 {
			anyFree = true
		}
	}
	err := s.validateChannelKeys(ctx, req)
	verifAssert("iterator-open-ok-iff-keys-stored-and-not-free", (err == nil) == (n > 0 && allStored && !anyFree))
	verifReach("end")
}
