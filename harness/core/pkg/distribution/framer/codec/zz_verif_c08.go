//go:build verif_harness

package codec

import (
	"context"

	"github.com/synnaxlabs/synnax/pkg/distribution/channel"
	"github.com/synnaxlabs/synnax/pkg/distribution/framer/frame"
	"github.com/synnaxlabs/x/telem"
)

// VerifC08Flags: the flag byte round-trips and the two unused bits are ignored.
func VerifC08Flags() {
	f := flags{equalLens: verifBool("equalLens"), equalTimeRanges: verifBool("equalTimeRanges"), timeRangesZero: verifBool("timeRangesZero"),
		allChannelsPresent: verifBool("allChannelsPresent"), equalAlignments: verifBool("equalAlignments"), zeroAlignments: verifBool("zeroAlignments")}
	b := f.encode()
	verifObserve("byte", int64(b))
	verifAssert("flags-roundtrip", decodeFlags(b) == f)
	verifAssert("flags-unused-bits-clear", b&0xC0 == 0)
	any := verifUint8("any")
	verifAssert("flags-ignore-unused-bits", decodeFlags(any) == decodeFlags(any&0x3F))
	verifAssert("flags-decode-encode", decodeFlags(any).encode() == any&0x3F)
	verifReach("end")
}

const (
	verifK1 channel.Key = 1<<20 | 1 // uint8 channel
	verifK2 channel.Key = 1<<20 | 2 // uint16 channel
	verifK3 channel.Key = 1<<20 | 3 // not in the codec
	verifK4 channel.Key = 1<<20 | 4 // variable-length (string) channel
)

func verifCodec(compress bool) *Codec {
	if compress {
		return NewStatic(verifCodecKeys(), verifCodecTypes())
	}
	return NewStatic(verifCodecKeys(), verifCodecTypes(), DisableAlignmentCompression())
}

func verifCodecKeys() channel.Keys {
	if verifParam("variable", 0) == 1 {
		return channel.Keys{verifK4, verifK2, verifK1}
	}
	return channel.Keys{verifK2, verifK1}
}

func verifCodecTypes() []telem.DataType {
	if verifParam("variable", 0) == 1 {
		return []telem.DataType{telem.StringT, telem.Uint16T, telem.Uint8T}
	}
	return []telem.DataType{telem.Uint16T, telem.Uint8T}
}

type verifSer struct {
	key channel.Key
	s   telem.Series
}

// verifInputSeries: a series for k1 (uint8) or k2 (uint16) or the foreign key k3, with 0..2 samples.
func verifInputSeries(label string) verifSer {
	var v verifSer
	which := verifUint8(label+".which") % uint8(3+verifParam("variable", 0))
	samples := verifLen(label+".samples", 0, verifParam("samples", 2))
	switch which {
	case 0:
		v.key, v.s.DataType = verifK1, telem.Uint8T
		v.s.Data = verifBytes(label+".data", samples)
	case 1:
		v.key, v.s.DataType = verifK2, telem.Uint16T
		v.s.Data = verifBytes(label+".data", 2*samples)
	case 3: // variable-length channel: arbitrary bytes (well-formed records or not), 3 bytes per "sample" step
		v.key, v.s.DataType = verifK4, telem.StringT
		v.s.Data = verifBytes(label+".data", 3*samples)
	default:
		v.key, v.s.DataType = verifK3, telem.Uint8T
		v.s.Data = verifBytes(label+".data", samples)
	}
	v.s.TimeRange = telem.TimeRange{Start: telem.TimeStamp(verifInt64(label + ".start")), End: telem.TimeStamp(verifInt64(label + ".end"))}
	v.s.Alignment = telem.Alignment(verifUint64(label + ".alignment"))
	return v
}

func verifHSameBytes(a, b []byte) bool {
	if len(a) != len(b) {
		return false
	}
	for i := range a {
		if a[i] != b[i] {
			return false
		}
	}
	return true
}

func verifLess(a, b verifSer, ia, ib int) bool {
	if a.key != b.key {
		return a.key < b.key
	}
	if a.s.Alignment != b.s.Alignment {
		return a.s.Alignment < b.s.Alignment
	}
	return ia < ib
}

// VerifC08RoundTripExact: with alignment compression disabled, Decode(Encode(f)) returns exactly the series of f
// whose key the codec knows, ordered by (key, alignment, position), with identical data, time range and alignment.
func VerifC08RoundTripExact() {
	n := verifLen("series", 0, verifParam("series", 2))
	in := make([]verifSer, n)
	fr := frame.Frame{}
	for i := 0; i < n; i++ {
		in[i] = verifInputSeries("s")
		fr = fr.Append(in[i].key, in[i].s)
	}
	c := verifCodec(false)
	b, err := c.Encode(context.Background(), fr)
	verifAssert("encode-no-error", err == nil)
	out, derr := c.Decode(b)
	verifAssert("decode-no-error", derr == nil)
	// expected: known series, stable-sorted
	var want []verifSer
	var idx []int
	for i, v := range in {
		if v.key == verifK3 {
			continue
		}
		pos := len(want)
		for pos > 0 && verifLess(v, want[pos-1], i, idx[pos-1]) {
			pos--
		}
		want = append(want, verifSer{})
		idx = append(idx, 0)
		copy(want[pos+1:], want[pos:])
		copy(idx[pos+1:], idx[pos:])
		want[pos], idx[pos] = v, i
	}
	verifObserve("out.count", int64(out.Count()))
	verifAssert("roundtrip-count", out.Count() == len(want))
	i := 0
	for k, s := range out.Entries() {
		if i < len(want) {
			w := want[i]
			verifAssert("roundtrip-key", k == w.key)
			verifAssert("roundtrip-datatype", s.DataType == w.s.DataType)
			verifAssert("roundtrip-data", verifHSameBytes(s.Data, w.s.Data))
			verifAssert("roundtrip-timerange", s.TimeRange == w.s.TimeRange)
			verifAssert("roundtrip-alignment", s.Alignment == w.s.Alignment)
		}
		i++
	}
	verifReach("end")
}

// VerifC08RoundTripMerged: with alignment compression on, every known key decodes to the same concatenated sample
// bytes (in alignment order) and no series is invented or lost beyond the documented merge of contiguous series.
func VerifC08RoundTripMerged() {
	n := verifLen("series", 0, verifParam("series", 2))
	in := make([]verifSer, n)
	fr := frame.Frame{}
	for i := 0; i < n; i++ {
		in[i] = verifInputSeries("s")
		fr = fr.Append(in[i].key, in[i].s)
	}
	c := verifCodec(true)
	b, err := c.Encode(context.Background(), fr)
	verifAssert("encode-no-error", err == nil)
	out, derr := c.Decode(b)
	verifAssert("decode-no-error", derr == nil)
	for _, key := range []channel.Key{verifK1, verifK2, verifK4} {
		var want []verifSer
		var idx []int
		for i, v := range in {
			if v.key != key {
				continue
			}
			pos := len(want)
			for pos > 0 && verifLess(v, want[pos-1], i, idx[pos-1]) {
				pos--
			}
			want = append(want, verifSer{})
			idx = append(idx, 0)
			copy(want[pos+1:], want[pos:])
			copy(idx[pos+1:], idx[pos:])
			want[pos], idx[pos] = v, i
		}
		var wantData, gotData []byte
		for _, w := range want {
			wantData = append(wantData, w.s.Data...)
		}
		cnt := 0
		for k, s := range out.Entries() {
			if k == key {
				gotData = append(gotData, s.Data...)
				cnt++
			}
		}
		verifAssert("merged-same-samples", verifHSameBytes(gotData, wantData))
		verifAssert("merged-no-extra-series", cnt <= len(want))
		if len(want) > 0 {
			verifAssert("merged-key-present", cnt >= 1)
		}
	}
	for k := range out.Keys() {
		verifAssert("merged-no-foreign-key", k == verifK1 || k == verifK2 || k == verifK4)
	}
	verifReach("end")
}

// VerifC08DecodeAnyBytes: Decode on an arbitrary message never panics and never allocates more than 1 MiB for a
// message of at most a few dozen bytes.
func VerifC08DecodeAnyBytes() {
	n := verifLen("len", 0, verifParam("len", 12))
	b := verifBytes("b", n)
	c := verifCodec(true)
	var derr error
	panicked := false
	alloc := verifMaxAlloc(func() {
		panicked = verifPanics(func() { _, derr = c.Decode(b) })
	})
	_ = derr
	verifAssert("decode-never-panics", !panicked)
	// witness restricted to allocations below 256 MiB so that native replay stays cheap
	verifAssertKnown("decode-allocation-bounded", alloc <= 1<<20 || alloc > 1<<28, "C08-alloc-from-wire-length", true)
	verifReach("end")
}

// VerifC08DecodeBeforeUpdate: a dynamic codec that has not received a channel set yet (the state of a websocket
// connection's codec until its open message has been decoded, or after that message was refused) is handed an
// arbitrary message by the peer: Decode returns an error, it does not panic.
func VerifC08DecodeBeforeUpdate() {
	n := verifLen("len", 0, verifParam("len", 4))
	b := verifBytes("b", n)
	c := NewDynamic(nil)
	var derr error
	panicked := verifPanics(func() { _, derr = c.Decode(b) })
	verifAssert("decode-before-update-never-panics", !panicked)
	verifAssert("decode-before-update-returns-an-error", panicked || derr != nil)
	verifReach("end")
}

// VerifC08RepeatedKeysOrder: many series of one channel with identical alignment keep their frame order through
// the round trip (the sort must be stable in effect; Go's sort.Sort switches algorithm above 12 elements).
func VerifC08RepeatedKeysOrder() {
	n := verifParam("n", 14)
	c := NewStatic(channel.Keys{verifK1}, []telem.DataType{telem.Uint8T}, DisableAlignmentCompression())
	fr := frame.Frame{}
	data := make([]byte, n)
	// a first series with a larger alignment makes the input unsorted
	fr = fr.Append(verifK1, telem.Series{DataType: telem.Uint8T, Data: []byte{0xEE}, Alignment: 7})
	for i := 0; i < n; i++ {
		data[i] = verifUint8("d")
		fr = fr.Append(verifK1, telem.Series{DataType: telem.Uint8T, Data: []byte{data[i]}, Alignment: 3})
	}
	b, err := c.Encode(context.Background(), fr)
	verifAssert("encode-no-error", err == nil)
	out, derr := c.Decode(b)
	verifAssert("decode-no-error", derr == nil)
	verifAssert("repeated-count", out.Count() == n+1)
	i := 0
	for _, s := range out.Entries() {
		if i < n {
			verifAssert("repeated-keys-keep-frame-order", len(s.Data) == 1 && s.Data[0] == data[i] && s.Alignment == 3)
		}
		i++
	}
	verifReach("end")
}

// VerifC08UpdateBacklog: two sides that received the same sequence of channel-set updates agree on the numbering
// of codec states, whether the updates were applied one at a time or were pending together.
func VerifC08UpdateBacklog() {
	types1 := map[channel.Key]telem.DataType{verifK1: telem.Uint8T}
	types2 := map[channel.Key]telem.DataType{verifK1: telem.Uint8T, verifK2: telem.Uint16T}
	enc := newCodec()
	dec := newCodec()
	// encoder: both updates pending together
	enc.update(channel.Keys{verifK1}, types1)
	enc.update(channel.Keys{verifK1, verifK2}, types2)
	// decoder: one at a time
	dec.update(channel.Keys{verifK1}, types1)
	dec.processUpdates()
	dec.update(channel.Keys{verifK1, verifK2}, types2)
	d1, d2 := verifBytes("k1.data", 1), verifBytes("k2.data", 2)
	fr := frame.Frame{}
	fr = fr.Append(verifK1, telem.Series{DataType: telem.Uint8T, Data: d1})
	fr = fr.Append(verifK2, telem.Series{DataType: telem.Uint16T, Data: d2})
	b, err := enc.Encode(context.Background(), fr)
	verifAssert("encode-no-error", err == nil)
	out, derr := dec.Decode(b)
	verifAssert("decode-no-error", derr == nil)
	verifAssert("backlog-count", out.Count() == 2)
	got1, got2 := false, false
	for k, s := range out.Entries() {
		if k == verifK1 && verifHSameBytes(s.Data, d1) && s.DataType == telem.Uint8T {
			got1 = true
		}
		if k == verifK2 && verifHSameBytes(s.Data, d2) && s.DataType == telem.Uint16T {
			got2 = true
		}
	}
	verifAssert("backlog-roundtrip", got1 && got2)
	verifAssert("backlog-same-numbering", enc.mu.seqNum == dec.mu.seqNum)
	verifReach("end")
}
