//go:build verif_harness

package writer

import (
	"sync"

	"github.com/synnaxlabs/freighter"
	"github.com/synnaxlabs/synnax/pkg/distribution/channel"
	"github.com/synnaxlabs/synnax/pkg/distribution/framer/frame"
	"github.com/synnaxlabs/synnax/pkg/distribution/node"
	"github.com/synnaxlabs/synnax/pkg/distribution/proxy"
	"github.com/synnaxlabs/x/address"
	"github.com/synnaxlabs/x/confluence"
	"github.com/synnaxlabs/x/signal"
	"github.com/synnaxlabs/x/telem"
)

//verif:assume VerifC07PeerSwitchSend: signal.Context.Go runs the sender's loop synchronously under the engine (its input stream is filled and closed beforehand); natively it is a goroutine that the harness joins with Wait

// verifRecordingSender records what the gateway sends to one peer.
type verifRecordingSender struct {
	freighter.StreamSenderCloser[Request]
	mu   *sync.Mutex
	got  *[]Request
	self address.Address
}

func (s verifRecordingSender) Send(r Request) error {
	s.mu.Lock()
	*s.got = append(*s.got, r)
	s.mu.Unlock()
	return nil
}

func (s verifRecordingSender) CloseSend() error { return nil }

// VerifC07PeerSwitchSend: the gateway's peer sender forwards every write request to exactly the leaseholders
// that own channels in that request's frame, with exactly their series, and nothing of an earlier request is
// sent again: a write script over several peers stores each sample once, on its leaseholder.
func VerifC07PeerSwitchSend() {
	var mu sync.Mutex
	var got2, got3 []Request
	a2, a3 := address.Address("n2"), address.Address("n3")
	senders := map[address.Address]freighter.StreamSenderCloser[Request]{
		a2: verifRecordingSender{mu: &mu, got: &got2, self: a2},
		a3: verifRecordingSender{mu: &mu, got: &got3, self: a3},
	}
	rs := newRequestSwitchSender(proxy.AddressMap{2: a2, 3: a3}, senders).(*peerSwitchSender)
	in := confluence.NewStream[Request](4)
	rs.InFrom(in)
	k2, k3 := channel.NewKey(2, 1), channel.NewKey(3, 1)
	nreq := verifParam("requests", 2)
	var want2, want3 [][]byte // payload of the series each peer must receive, per request (nil = no message)
	for i := 0; i < nreq; i++ {
		to2, to3 := verifBool("to-node-2"), verifBool("to-node-3")
		var keys []channel.Key
		var series []telem.Series
		var w2, w3 []byte
		if to2 {
			w2 = []byte{byte(0x20 + i)}
			keys = append(keys, k2)
			series = append(series, telem.Series{DataType: telem.Uint8T, Data: w2})
		}
		if to3 {
			w3 = []byte{byte(0x30 + i)}
			keys = append(keys, k3)
			series = append(series, telem.Series{DataType: telem.Uint8T, Data: w3})
		}
		want2, want3 = append(want2, w2), append(want3, w3)
		in.Inlet() <- Request{Command: CommandWrite, SeqNum: i + 1, Frame: frame.NewMulti(keys, series)}
	}
	in.Close()
	sCtx, cancel := signal.Isolated()
	rs.Flow(sCtx)
	_ = sCtx.Wait()
	cancel()

	check := func(label string, owner node.Key, got []Request, want [][]byte) {
		exact := true
		gi := 0
		for i, w := range want {
			if w == nil {
				continue // this request has nothing for the peer: no message must be sent for it
			}
			if gi >= len(got) || got[gi].SeqNum != i+1 {
				exact = false
				break
			}
			n := 0
			for k, s := range got[gi].Frame.Entries() {
				n++
				if k.Leaseholder() != owner || len(s.Data) != 1 || s.Data[0] != w[0] {
					exact = false
				}
			}
			if n != 1 {
				exact = false
			}
			gi++
		}
		if gi != len(got) {
			exact = false // something was sent that no request asked for (e.g. an earlier frame again)
		}
		verifAssert(label, exact)
	}
	mu.Lock()
	defer mu.Unlock()
	check("peer-2-receives-exactly-its-series-once", 2, got2, want2)
	check("peer-3-receives-exactly-its-series-once", 3, got3, want3)
	verifReach("end")
}
