//go:build verif_harness

package writer

import (
	"context"

	"github.com/synnaxlabs/synnax/pkg/distribution/channel"
	"github.com/synnaxlabs/synnax/pkg/distribution/framer/frame"
	"github.com/synnaxlabs/synnax/pkg/distribution/node"
	"github.com/synnaxlabs/synnax/pkg/distribution/proxy"
	"github.com/synnaxlabs/x/address"
	"github.com/synnaxlabs/x/errors"
	"github.com/synnaxlabs/x/telem"
)

// VerifC07WriterSync: for nodeCount leaseholders, exactly one response is forwarded per sequence number, after
// all of them answered, and it reports Authorized = AND of all and (for commits) End = max of all: a write or
// commit is acknowledged as authorised only when every involved leaseholder authorised it.
func VerifC07WriterSync() {
	n := verifLen("nodes", 1, verifParam("nodes", 3))
	s := &synchronizer{nodeCount: n}
	ctx := context.Background()
	cmd := CommandWrite
	if verifBool("commit") {
		cmd = CommandCommit
	}
	for round := 1; round <= 2; round++ { // two consecutive cycles: state is reset between them
		allAuth := uint8(1)
		anyErr := false
		var maxEnd telem.TimeStamp
		for i := 0; i < n; i++ {
			// branch-free where possible: every symbolic bool that the harness itself branches on doubles the paths
			auth := verifUint8("r.authorized") & 1
			r := Response{SeqNum: round, Command: cmd, End: telem.TimeStamp(verifInt64("r.end")), Authorized: auth == 1, NodeKey: node.Key(i + 1)}
			verifAssume(r.End >= 0)
			allAuth &= auth
			if round == 1 && verifBool("r.failed") { // the second cycle only checks that state was reset
				r.Err = errors.New("leaseholder refused")
				anyErr = true
			}
			maxEnd = max(maxEnd, r.End)
			out, ok, err := s.sync(ctx, r)
			verifAssert("sync-no-error", err == nil)
			if i < n-1 {
				verifAssert("sync-not-forwarded-early", !ok)
				continue
			}
			verifAssert("sync-forwarded-when-complete", ok)
			verifAssert("sync-seqnum", out.SeqNum == round && out.Command == cmd)
			verifObserveBool("out.authorized", out.Authorized)
			verifAssert("sync-authorized-is-conjunction", out.Authorized == (allAuth == 1))
			verifAssert("sync-error-reported-iff-any-leaseholder-failed", (out.Err != nil) == anyErr)
			if cmd == CommandCommit {
				verifObserve("out.end", int64(out.End))
				verifAssert("sync-commit-end-is-max", out.End == maxEnd)
			}
		}
	}
	verifReach("end")
}

func verifSeries(tag byte) telem.Series {
	return telem.Series{DataType: telem.Uint8T, Data: []byte{tag}}
}

func verifFrame(n int) (frame.Frame, []channel.Key) {
	keys := make([]channel.Key, n)
	series := make([]telem.Series, n)
	for i := 0; i < n; i++ {
		nk := node.Key(verifUint16("lease"))
		verifAssume(nk >= 1 && nk <= 3 || nk == node.KeyFree)
		keys[i] = channel.NewKey(nk, channel.LocalKey(verifUint32("local")&0xFFFFF))
		series[i] = verifSeries(byte(i + 1))
	}
	return frame.NewMulti(keys, series), keys
}

// verifHHoldsExactly: fr holds exactly the series of f (identified by their tag byte) whose key satisfies pred, in
// frame order.
func verifHHoldsExactly(fr frame.Frame, keys []channel.Key, pred func(channel.Key) bool) bool {
	var wantKeys []channel.Key
	var wantTags []byte
	for i, k := range keys {
		if pred(k) {
			wantKeys = append(wantKeys, k)
			wantTags = append(wantTags, byte(i+1))
		}
	}
	if fr.Count() != len(wantKeys) {
		return false
	}
	i := 0
	for k, s := range fr.Entries() {
		if i >= len(wantKeys) || k != wantKeys[i] || len(s.Data) != 1 || s.Data[0] != wantTags[i] {
			return false
		}
		i++
	}
	return i == len(wantKeys)
}

// VerifC07SplitByHost: every series goes to exactly one of local / remote / free, chosen by its key's leaseholder.
func VerifC07SplitByHost() {
	n := verifLen("series", 0, verifParam("series", 3))
	f, keys := verifFrame(n)
	host := node.Key(verifUint16("host"))
	verifAssume(host >= 1 && host <= 3)
	local, remote, free := f.SplitByHost(host)
	verifAssert("local-exact", verifHHoldsExactly(local, keys, func(k channel.Key) bool { return k.Leaseholder() == host }))
	verifAssert("free-exact", verifHHoldsExactly(free, keys, func(k channel.Key) bool { return k.Leaseholder() != host && k.Free() }))
	verifAssert("remote-exact", verifHHoldsExactly(remote, keys, func(k channel.Key) bool { return k.Leaseholder() != host && !k.Free() }))
	verifAssert("nothing-lost-or-duplicated", local.Count()+remote.Count()+free.Count() == n)
	// gateway/peer/free switch forwards each part to its own outlet
	sw := newPeerGatewayFreeSwitch(host, true, true, true)
	out := map[address.Address]Request{}
	_ = sw._switch(context.Background(), Request{Command: CommandWrite, Frame: f, SeqNum: 5}, out)
	verifAssert("switch-gateway", verifHHoldsExactly(out[gatewayWriterAddr].Frame, keys, func(k channel.Key) bool { return k.Leaseholder() == host }))
	verifAssert("switch-peer", verifHHoldsExactly(out[peerSenderAddr].Frame, keys, func(k channel.Key) bool { return k.Leaseholder() != host && !k.Free() }))
	verifAssert("switch-free", verifHHoldsExactly(out[freeWriterAddr].Frame, keys, func(k channel.Key) bool { return k.Leaseholder() != host && k.Free() }))
	verifAssert("switch-keeps-seqnum", out[gatewayWriterAddr].SeqNum == 5 && out[peerSenderAddr].SeqNum == 5 && out[freeWriterAddr].SeqNum == 5)
	verifReach("end")
}

// VerifC07SplitByLeaseholder: the peer switch sends each series to the address of exactly its leaseholder; other
// commands are broadcast to every peer.
func VerifC07SplitByLeaseholder() {
	n := verifLen("series", 0, verifParam("series", 3))
	f, keys := verifFrame(n)
	for _, k := range keys {
		verifAssume(!k.Free())
	}
	addrs := proxy.AddressMap{1: "n1", 2: "n2", 3: "n3"}
	rs := &peerSwitchSender{addresses: addrs}
	out := map[address.Address]Request{}
	_ = rs._switch(context.Background(), Request{Command: CommandWrite, Frame: f, SeqNum: 9}, out)
	total := 0
	for nk := node.Key(1); nk <= 3; nk++ { // fixed order keeps native replay deterministic
		addr := addrs[nk]
		r, ok := out[addr]
		cnt := 0
		for _, k := range keys {
			if k.Leaseholder() == nk {
				cnt++
			}
		}
		if cnt == 0 {
			verifAssert("no-empty-request", !ok)
			continue
		}
		verifAssert("per-leaseholder-exact", ok && r.SeqNum == 9 && verifHHoldsExactly(r.Frame, keys, func(k channel.Key) bool { return k.Leaseholder() == nk }))
		total += r.Frame.Count()
	}
	verifAssert("nothing-lost-or-duplicated", total == n)
	out2 := map[address.Address]Request{}
	_ = rs._switch(context.Background(), Request{Command: CommandCommit, SeqNum: 10}, out2)
	verifAssert("commit-broadcast", len(out2) == 3 && out2["n1"].Command == CommandCommit && out2["n2"].Command == CommandCommit && out2["n3"].Command == CommandCommit)
	verifReach("end")
}
