//go:build verif_harness

package writer

import (
	"context"

	"github.com/synnaxlabs/synnax/pkg/distribution/channel"
	"github.com/synnaxlabs/x/gorp"
)

//verif:assume VerifC07OpenValidates: channel metadata table = the real gorp code over gorp.VerifKV with an ideal handle codec

// VerifC07OpenValidates: the channel-key validation that guards every writer open accepts a key list exactly
// when every key names a stored channel, and then returns those channels; any missing key makes the open fail.
func VerifC07OpenValidates() {
	ctx := context.Background()
	db := gorp.VerifOpenDB(&gorp.VerifKV{}, channel.HarnessChanCodec())
	chs := channel.VerifNewService(db)
	keys := [3]channel.Key{channel.NewKey(1, 1), channel.NewKey(2, 1), channel.NewKey(1, 7)}
	var stored [3]bool
	for i, k := range keys {
		if verifBool("stored") {
			stored[i] = true
			if err := channel.VerifStoreChannel(ctx, chs, channel.Channel{Name: "c", Leaseholder: k.Leaseholder(), LocalKey: k.LocalKey()}); err != nil {
				panic(err)
			}
		}
	}
	s := &Service{cfg: ServiceConfig{Channel: chs}}
	n := verifLen("keys", 0, 2)
	req := make(channel.Keys, n)
	allStored, distinct := true, true
	for i := range req {
		j := verifLen("key", 0, 2)
		req[i] = keys[j]
		if !stored[j] {
			allStored = false
		}
		if i > 0 && req[i] == req[0] {
			distinct = false
		}
	}
	got, err := s.validateChannelKeys(ctx, req)
	if n == 0 {
		verifAssert("open-without-keys-fails", err != nil)
	} else if distinct {
		verifAssert("open-fails-iff-some-channel-is-missing", (err != nil) == !allStored)
		if err == nil {
			ok := len(got) == n
			for _, g := range got {
				found := false
				for _, k := range req {
					if g.Key() == k {
						found = true
					}
				}
				if !found {
					ok = false
				}
			}
			verifAssert("open-returns-the-requested-channels", ok)
		}
	} else if !allStored {
		verifAssert("open-with-missing-repeated-key-fails", err != nil)
	}
	verifReach("end")
}
