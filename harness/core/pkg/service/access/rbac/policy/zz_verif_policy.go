//go:build verif_harness

package policy

import (
	"github.com/synnaxlabs/synnax/pkg/distribution/ontology"
	"github.com/synnaxlabs/x/gorp"
)

// VerifNewService builds a policy service over db and otg without migrations, signals or search.
func VerifNewService(db *gorp.DB, otg *ontology.Ontology) *Service {
	return &Service{cfg: ServiceConfig{DB: db, Ontology: otg}, table: gorp.VerifOpenTable[Key, Policy](db)}
}

// VerifStore writes a policy row directly (the writer's validation and ontology bookkeeping are exercised by
// the harness separately).
func VerifTable(s *Service) *gorp.Table[Key, Policy] { return s.table }

//verif:redirect github.com/synnaxlabs/synnax/pkg/service/access/rbac/policy.newResource verifNewResource only=VerifC18Enforce
//verif:assume VerifC18Enforce: the ontology resource built for a policy carries its ID and name only (the zyn schema conversion of the remaining fields is presentation and is skipped under the engine; the native replay runs the real one)

func verifNewResource(p Policy) ontology.Resource {
	return ontology.Resource{ID: OntologyID(p.Key), Name: p.Name}
}
