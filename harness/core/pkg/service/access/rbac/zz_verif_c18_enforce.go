//go:build verif_harness

package rbac

import (
	"context"

	"github.com/google/uuid"
	"github.com/synnaxlabs/synnax/pkg/distribution/ontology"
	"github.com/synnaxlabs/synnax/pkg/service/access"
	"github.com/synnaxlabs/synnax/pkg/service/access/rbac/policy"
	"github.com/synnaxlabs/synnax/pkg/service/access/rbac/role"
	"github.com/synnaxlabs/x/encoding/orc"
	"github.com/synnaxlabs/x/errors"
	"github.com/synnaxlabs/x/gorp"
)

//verif:assume VerifC18Enforce: key-value engine modelled by gorp.VerifKV; entries are stored with the real orc codec; the ontology has no secondary indexes, observers or search (traversal takes its prefix/scan paths over the stored bytes); roles, policies and assignments are created through the real writers

// VerifC18Enforce: Enforce (ontology traversal subject -> parent roles -> child policies, policy retrieval,
// allowRequest) grants exactly when every requested object is covered by a policy that grants the action and is
// attached to a role currently assigned to the subject — for two roles, two policies with arbitrary attachment
// and content, arbitrary assignments of two subjects, and one assign/unassign/attach/delete-role/delete-policy/re-create-policy step before
// the check.
func VerifC18Enforce() {
	ctx := context.Background()
	store := &gorp.VerifKV{}
	db := gorp.VerifOpenDBWith(store, orc.Codec)
	otg := ontology.VerifNewOntology(db)
	pol := policy.VerifNewService(db, otg)
	rol := role.VerifNewService(db, otg)
	ontology.VerifRegister(otg, pol) // the last hop of the traversal loads the policy resources through it
	svc := &Service{Policy: pol, Role: rol, cfg: ServiceConfig{DB: db, Ontology: otg}}
	ow := otg.NewWriter(nil)
	must := func(err error) {
		if err != nil {
			panic(err)
		}
	}
	subjects := [2]ontology.ID{{Type: ontology.ResourceTypeUser, Key: "u1"}, {Type: ontology.ResourceTypeUser, Key: "u2"}}
	roles := [2]role.Key{uuid.MustParse("00000000-0000-0000-0000-0000000000a1"), uuid.MustParse("00000000-0000-0000-0000-0000000000a2")}
	pkeys := [2]policy.Key{uuid.MustParse("00000000-0000-0000-0000-0000000000b1"), uuid.MustParse("00000000-0000-0000-0000-0000000000b2")}
	for _, s := range subjects {
		must(ow.DefineResource(ctx, s))
	}
	for _, r := range roles {
		must(role.VerifStoreRole(ctx, rol, role.Role{Key: r, Name: "r"}))
		must(ow.DefineResource(ctx, role.OntologyID(r)))
	}
	actions := [2]access.Action{access.ActionRetrieve, access.ActionCreate}
	otypes := [2]ontology.ResourceType{ontology.ResourceTypeChannel, ontology.ResourceTypeRange}
	okeys := [2]string{"", "k1"} // "" = type-level object
	pick := func(label string) ontology.ID {
		return ontology.ID{Type: otypes[verifLen(label+".type", 0, 1)], Key: okeys[verifLen(label+".key", 0, 1)]}
	}
	// configuration
	var pols [2]policy.Policy
	var attached [2]int // 0 none, 1 / 2 = role
	pw := pol.NewWriter(nil, false)
	full := verifParam("full", 0) == 1
	for i := range pols {
		pols[i] = policy.Policy{Key: pkeys[i], Name: "p", Actions: []access.Action{access.ActionRetrieve}}
		if i == 0 || verifParam("p2action", 1) == 1 {
			pols[i].Actions[0] = actions[verifLen("policy.action", 0, 1)]
		}
		if i == 0 || full {
			pols[i].Objects = []ontology.ID{pick("policy.object")}
		} else {
			// the second policy is a type-level grant on channels (its action and attachment stay arbitrary)
			pols[i].Objects = []ontology.ID{{Type: ontology.ResourceTypeChannel}}
		}
		must(pw.Create(ctx, &pols[i]))
		attached[i] = verifLen("policy.role", 0, 2)
		if attached[i] > 0 {
			must(pw.SetOnRole(ctx, roles[attached[i]-1], pkeys[i]))
		}
	}
	var assigned [2][2]bool // subject x role
	rw := rol.NewWriter(nil, false)
	for s := range subjects {
		for r := range roles {
			if s == 1 && r == 1 && !full {
				continue // the other subject holds at most the first role
			}
			if s == 1 && verifParam("othersubject", 1) == 0 {
				continue
			}
			if verifBool("assigned") {
				assigned[s][r] = true
				must(rw.AssignRole(ctx, subjects[s], roles[r]))
			}
		}
	}
	// A group is a parent in the ontology too, but not a role: filing the subject and a policy under the same
	// group grants nothing.
	if g := verifParam("group", 1); g > 0 {
		grp := ontology.ID{Type: ontology.ResourceTypeGroup, Key: "g1"}
		must(ow.DefineResource(ctx, grp))
		ofSubject := verifBool("group.parent-of-subject")
		ofPolicy := ofSubject
		if g == 1 { // thorough: the two edges independently; quick (2): both or neither
			ofPolicy = verifBool("group.parent-of-policy")
		}
		if ofSubject {
			must(ow.DefineRelationship(ctx, grp, ontology.RelationshipTypeParentOf, subjects[0]))
		}
		if ofPolicy {
			must(ow.DefineRelationship(ctx, grp, ontology.RelationshipTypeParentOf, policy.OntologyID(pkeys[1])))
		}
	}
	// one change right before the check
	step := verifLen("step", 0, verifParam("steps", 3))
	if verifParam("quicksteps", 0) == 1 {
		verifAssume(step == 0 || step == 1 || step == 4 || step == 6)
	}
	switch step {
	case 1:
		r := verifLen("step.role", 0, 1)
		must(rw.UnassignRole(ctx, subjects[0], roles[r]))
		assigned[0][r] = false
	case 2:
		r := verifLen("step.role", 0, 1)
		must(rw.AssignRole(ctx, subjects[0], roles[r]))
		assigned[0][r] = true
	case 3: // attach policy 0 to a role it is not attached to yet
		if attached[0] == 0 {
			attached[0] = 1 + verifLen("step.role", 0, 1)
			must(pw.SetOnRole(ctx, roles[attached[0]-1], pkeys[0]))
		}
	case 4: // delete a role: whatever it granted is gone
		r := verifLen("step.role", 0, 1)
		must(rw.Delete(ctx, roles[r]))
		for i := range attached {
			if attached[i] == r+1 {
				attached[i] = 0
			}
		}
		assigned[0][r], assigned[1][r] = false, false
	case 5: // delete a policy
		i := verifLen("step.policy", 0, 1)
		must(pw.Delete(ctx, pkeys[i]))
		attached[i] = 0
	case 6: // delete a policy and create a policy under the same key again: the new one is attached to nothing
		i := verifLen("step.policy", 0, 1)
		must(pw.Delete(ctx, pkeys[i]))
		must(pw.Create(ctx, &pols[i]))
		attached[i] = 0
	}
	req := access.Request{Subject: subjects[0], Action: actions[verifLen("request.action", 0, 1)]}
	no := verifLen("request.objects", 1, verifParam("objects", 1))
	for j := 0; j < no; j++ {
		o := pick("request.object")
		if o.Key == "" {
			o.Key = "k2" // requests name instances; k2 is covered by type-level policies only
		}
		req.Objects = append(req.Objects, o)
	}
	// reference
	reachable := func(i int) bool { return attached[i] > 0 && assigned[0][attached[i]-1] }
	want := true
	for _, o := range req.Objects {
		covered := false
		for i := range pols {
			if reachable(i) && pols[i].Actions[0] == req.Action && refCovers(pols[i].Objects[0], o) {
				covered = true
			}
		}
		if !covered {
			want = false
		}
	}
	err := svc.Enforce(ctx, req)
	verifObserveBool("granted", err == nil)
	verifAssert("enforce-grants-iff-covered-by-an-assigned-role's-policy", (err == nil) == want)
	if err != nil {
		verifAssert("enforce-denial-is-access-denied", errors.Is(err, access.ErrDenied))
	}
	got, rerr := svc.RetrievePoliciesForSubject(ctx, subjects[0], nil)
	verifAssert("retrieve-policies-no-error", rerr == nil)
	exact := true
	for i := range pols {
		n := 0
		for _, g := range got {
			if g.Key == pkeys[i] {
				n++
			}
		}
		// a policy reachable through both roles may be listed once per path; it must be listed iff reachable
		if (n > 0) != reachable(i) {
			exact = false
		}
	}
	for _, g := range got {
		if g.Key != pkeys[0] && g.Key != pkeys[1] {
			exact = false
		}
	}
	verifAssert("retrieved-policies-are-exactly-the-reachable-ones", exact)
	verifReach("end")
}
