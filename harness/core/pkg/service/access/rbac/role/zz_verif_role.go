//go:build verif_harness

package role

import (
	"github.com/synnaxlabs/synnax/pkg/distribution/ontology"
	"github.com/synnaxlabs/x/gorp"
)

// VerifNewService builds a role service over db and otg without migrations, signals, search or a roles group.
func VerifNewService(db *gorp.DB, otg *ontology.Ontology) *Service {
	return &Service{cfg: ServiceConfig{DB: db, Ontology: otg}, table: gorp.VerifOpenTable[Key, Role](db)}
}
