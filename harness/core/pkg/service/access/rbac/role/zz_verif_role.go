//go:build verif_harness

package role

import (
	"context"

	"github.com/synnaxlabs/synnax/pkg/distribution/ontology"
	"github.com/synnaxlabs/x/gorp"
)

// VerifNewService builds a role service over db and otg without migrations, signals, search or a roles group.
func VerifNewService(db *gorp.DB, otg *ontology.Ontology) *Service {
	return &Service{cfg: ServiceConfig{DB: db, Ontology: otg}, table: gorp.VerifOpenTable[Key, Role](db)}
}

// VerifStoreRole writes a role row directly (Create also files the role under the roles group, which this
// harness environment does not have).
func VerifStoreRole(ctx context.Context, s *Service, r Role) error {
	return s.table.NewCreate().Entry(&r).Exec(ctx, s.cfg.DB)
}
