//go:build verif_harness

package rbac

import (
	"github.com/synnaxlabs/synnax/pkg/distribution/ontology"
	"github.com/synnaxlabs/synnax/pkg/service/access"
	"github.com/synnaxlabs/synnax/pkg/service/access/rbac/policy"
)

// verifShortString: "" or a 1-byte string with symbolic content (lengths are case-split).
func verifShortString(label string) string {
	return verifString(label, verifLen(label+".len", 0, 1))
}

func verifID(label string) ontology.ID {
	return ontology.ID{Type: ontology.ResourceType(verifShortString(label + ".type")), Key: verifShortString(label + ".key")}
}

// refCovers: the policy object covers the requested object (type-level grant or exact instance grant).
func refCovers(p, r ontology.ID) bool {
	if p.Type != "" && p.Key == "" {
		return p.Type == r.Type
	}
	return p.Type == r.Type && p.Key == r.Key
}

// VerifC18Allow: allowRequest grants exactly when every requested object is covered by some policy that contains
// the requested action.
func VerifC18Allow() {
	np := verifLen("policies", 0, verifParam("policies", 1))
	policies := make([]policy.Policy, np)
	for i := range policies {
		no := verifLen("objects", 0, verifParam("objects", 2))
		for j := 0; j < no; j++ {
			policies[i].Objects = append(policies[i].Objects, verifID("pobj"))
		}
		na := verifLen("actions", 0, verifParam("actions", 2))
		for j := 0; j < na; j++ {
			policies[i].Actions = append(policies[i].Actions, access.Action(verifString("action", 1)))
		}
	}
	req := access.Request{Action: access.Action(verifString("req.action", 1))}
	nr := verifLen("requested", 0, verifParam("requested", 2))
	for j := 0; j < nr; j++ {
		req.Objects = append(req.Objects, verifID("robj"))
	}
	got := allowRequest(req, policies)
	want := true
	for _, r := range req.Objects {
		covered := false
		for _, p := range policies {
			has := false
			for _, a := range p.Actions {
				if a == req.Action {
					has = true
				}
			}
			if !has {
				continue
			}
			for _, o := range p.Objects {
				if refCovers(o, r) {
					covered = true
				}
			}
		}
		if !covered {
			want = false
		}
	}
	verifObserveBool("allow", got)
	verifAssert("allow-iff-covered", got == want)
	if np == 0 && nr > 0 {
		verifAssert("no-policy-no-access", !got)
	}
	verifReach("end")
}
