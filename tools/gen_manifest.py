#!/usr/bin/env python3
"""Regenerates /verif/MANIFEST.json from checks.json and the per-property texts below."""
import json, os
V = os.path.dirname(os.path.dirname(os.path.abspath(__file__)))
checks = json.load(open(os.path.join(V, "checks.json")))
TEXT = json.load(open(os.path.join(V, "tools", "manifest_text.json")))
BASELINE = "for m in $(cat /w/out/gomods.txt); do MF=$(cd /repo/$m && . /w/out/goenv.sh && gomodflag); (cd /repo/$m && go test $MF -json -vet=off -count=1 -timeout 25m ./...); done"
m = {
 "version": 1,
 "setup_cmd": "cd /verif && ./check build && ./check selftest",
 "hooks": {"guard": "verif_harness", "enable": "no source hooks: harness files (/verif/harness/**, //go:build verif_harness) and the verif runtime are injected into the target packages with go/packages overlays (engine) and `go test -tags verif_harness -overlay` (native replay); nothing is added to /repo",
           "baseline_off_cmd": BASELINE, "source_commits": [], "add_only": True},
 "engines": [{"name": "gosmt", "path": "engine/cmd/gosmt", "serves_properties": sorted(k for k in checks if k != "C19"),
              "kind_free_text": "Go SSA (x/tools v0.50.0) bounded symbolic executor written for this task; path conditions and assertions discharged by z3 4.8.12 over QF_BV terms; counterexamples and sampled path models re-executed on the natively compiled real code"}],
 "checks": [], "not_applicable": [],
 "notes": "All claims are bounded: a pass means the solver found no counterexample for any value inside the bounds recorded in the evidence file. See DESIGN.md.",
}
if "C19" in checks:
    m["engines"].append({"name": "c19", "path": "c19", "serves_properties": ["C19"], "kind_free_text": "Arc program generator + WASM-subset symbolic executor (python, z3) validating the real compiler's output against spec-derived reference terms"})
for pid in sorted(checks):
    t = TEXT[pid]
    if pid == "C19":
        quick, thorough = "./check C19 --tier quick", "./check C19 --tier thorough"
    else:
        quick, thorough = f"./check {pid} --tier quick", f"./check {pid} --tier thorough"
    m["checks"].append({
        "property_id": pid, "quick_cmd": quick, "thorough_cmd": thorough, "evidence_file": f"/verif/evidence/{pid}.json",
        "replay_cmd_template": "./check replay {path}", "engine": "c19" if pid == "C19" else "gosmt",
        "level_claimed": {"category": checks[pid].get("level", "model_checking"), "text": t["level"], "design_ref": t.get("design_ref", "DESIGN.md section 4, " + pid)},
        "level_note": t["note"], "technique": t.get("technique", "Go SSA -> SMT (QF_BV) bounded symbolic execution of the real functions; assertions decided by z3 for all inputs within the bounds; native replay of models"),
    })
for pid, reason in TEXT.get("_not_applicable", {}).items():
    if pid not in checks:
        m["not_applicable"].append({"property_id": pid, "reason": reason})
for i in range(1, 21):
    pid = "C%02d" % i
    if pid not in checks and not any(n["property_id"] == pid for n in m["not_applicable"]):
        m["not_applicable"].append({"property_id": pid, "reason": "check not built yet"})
json.dump(m, open(os.path.join(V, "MANIFEST.json"), "w"), indent=1)
print("claimed:", sorted(checks), "n/a:", [n["property_id"] for n in m["not_applicable"]])
