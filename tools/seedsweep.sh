#!/bin/bash
# usage: tools/seedsweep.sh [seed-ids...]   — re-runs the quick check of each seeded change's property against a scratch
# worktree with the change applied (tools/seedcheck_wt.sh) and prints one line per seed: detected / missed / not-applicable.
cd "$(dirname "$0")/.."
ids=${@:-$(ls seeded)}
for s in $ids; do
  prop=${s%%-*}
  [ -f seeded/$s/patch.diff ] || continue
  out=$(tools/seedcheck_wt.sh /verif/seeded/$s/patch.diff $prop 2>&1)
  rc=$(echo "$out" | tail -1 | sed 's/.*rc=//')
  first=$(echo "$out" | grep -m1 "^VIOLATION" | sed 's/.*harness=//' | cut -c1-120)
  case $rc in
    1) echo "SWEEP $s detected :: $first";;
    0) echo "SWEEP $s MISSED";;
    *) echo "SWEEP $s rc=$rc :: $(echo "$out" | grep -m1 "BROKEN\|does not apply" | cut -c1-160)";;
  esac
done
