#!/bin/bash
# usage: tools/seedverify.sh <seed dir (patch.diff, demo test, demo_path.txt, meta.json)> <scratch worktree>
# Confirms independently: demo passes on clean tree, fails with the patch; module test suites pass with the patch
# (demo absent). Leaves the worktree clean. Prints one RESULT line.
sd=$1; wt=$2
export PATH=/opt/veriftools/go1.26.8/bin:$PATH GOTOOLCHAIN=local GOFLAGS=-mod=mod GOPROXY=off
cd $wt || exit 9
git checkout -q -- . ; git clean -fdq
demo_rel=$(cat $sd/demo_path.txt | tr -d '\n')
demo_file=$(ls $sd/*_test.go | head -1)
demo_cmd=$(python3 -c "import json;print(json.load(open('$sd/meta.json'))['demo_cmd'])")
mods=$(python3 - <<PY
import json,re
m=json.load(open('$sd/meta.json'))
txt=' '.join(m.get('modules_tested',[]))+' '+' '.join(m.get('test_cmds',[]))
out=[]
for mod in ['cesium','aspen','core','x/go','freighter/go']:
    if re.search(r'(^|[ /"])'+re.escape(mod)+r'($|[ /")(])',txt): out.append(mod)
print(' '.join(out))
PY
)
run_demo() { cp $demo_file $wt/$demo_rel; demo_cmd=${demo_cmd//<repo>/$wt}; (cd $wt && bash -c "$demo_cmd" > /tmp/seedverify_demo.$$ 2>&1); rc=$?; rm -f $wt/$demo_rel; return $rc; }
run_demo; clean_rc=$?
git apply $sd/patch.diff || { echo "RESULT $sd patch-does-not-apply"; exit 1; }
run_demo; patched_rc=$?
suite_rc=0; suite_note=""
for mod in $mods; do
  case $mod in
    core) pk=$(python3 -c "
import json,re
m=json.load(open('$sd/meta.json'))
t=' '.join(m.get('test_cmds',[]))
p=sorted(set(re.findall(r'\./pkg/[A-Za-z0-9_/]+/\.\.\.',t)))
print(' '.join(p) if p else './pkg/distribution/...')");;
    *) pk="./...";;
  esac
  (cd $wt/$mod && go test -vet=off -count=1 $pk > /tmp/seedverify_suite.$$ 2>&1) || { suite_rc=1; suite_note="$suite_note $mod:FAIL($(grep -m1 '^FAIL\|--- FAIL' /tmp/seedverify_suite.$$ | cut -c1-80))"; }
done
git checkout -q -- . ; git clean -fdq
echo "RESULT $sd demo_clean_rc=$clean_rc demo_patched_rc=$patched_rc suite_rc=$suite_rc mods=[$mods]$suite_note"
rm -f /tmp/seedverify_demo.$$ /tmp/seedverify_suite.$$
