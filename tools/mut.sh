#!/bin/bash
# usage: tools_mut.sh <file-rel-to-repo> <sed-expr> <mod> <pkg> <harness> [extra gosmt args]
f=$1; e=$2; mod=$3; pkg=$4; h=$5; shift 5
cd /repo && sed -i "$e" $f
if git diff --quiet; then echo "MUTATION DID NOT APPLY"; exit 9; fi
cd /verif && ./bin/gosmt -mod $mod -pkg $pkg -run $h -out out/tmp/mut.json -j 8 "$@" 2>&1 | grep -v "^  PATH-END" | head -8
git -C /repo checkout -- .
