#!/bin/bash
# usage: tools/runall.sh [tier] [ids...]
tier=${1:-quick}; shift
cd "$(dirname "$0")/.."; ids=${@:-$(python3 -c "import json;print(' '.join(sorted(json.load(open('checks.json')))))")}
cd "$(dirname "$0")/.."
for id in $ids; do
  s=$(date +%s)
  out=$(./check $id --tier $tier 2>&1); rc=$?
  echo "$id rc=$rc $(( $(date +%s)-s ))s :: $(echo "$out" | tail -1 | cut -c1-160)"
  echo "$out" | grep -E "^(VIOLATION|BROKEN|KNOWN-FINDING|UNCONFIRMED)" | cut -c1-220 | head -5
done
