#!/usr/bin/env python3
"""usage: tools/seedsave.py <seed src dir> <name e.g. C03-a> <detected yes|no|after-strengthening> <caught_by> [note]"""
import json, os, shutil, sys, glob
src, name, detected, caught = sys.argv[1:5]
note = sys.argv[5] if len(sys.argv) > 5 else ""
dst = os.path.join("/verif/seeded", name)
os.makedirs(dst, exist_ok=True)
shutil.copy(os.path.join(src, "patch.diff"), dst)
for f in glob.glob(os.path.join(src, "*_test.go")):
    shutil.copy(f, dst)
m = json.load(open(os.path.join(src, "meta.json")))
m["demo_path"] = open(os.path.join(src, "demo_path.txt")).read().strip()
m["origin"] = "independent sub-agent given only the property text and a scratch worktree"
m["confirmed_by_me"] = "tools/seedverify.sh in a scratch worktree: demo passes on the clean tree, fails with the patch; the module test suites named in test_cmds pass with the patch applied (demo absent)"
m["check_result"] = {"detected": detected, "caught_by": caught, "how_run": "tools/seedcheck.sh <patch> <property> (git apply to /repo, ./check <id> --tier quick, git checkout)", "note": note}
json.dump(m, open(os.path.join(dst, "meta.json"), "w"), indent=1)
print("saved", dst)
