#!/bin/bash
# usage: tools/seedcheck_wt.sh <patch.diff> <property-id> [tier]
# Like seedcheck.sh, but applies the seeded change to a scratch worktree (/tmp/wt_seed, created on demand at
# /repo's HEAD) and points the check at it with VERIF_REPO, so /repo itself is never touched.
patch=$1; id=$2; tier=${3:-quick}
wt=${SEED_WT:-/tmp/wt_seed}
if [ ! -d $wt ]; then git -C /repo worktree add -q --detach $wt HEAD || exit 9; fi
cd $wt || exit 9
git checkout -q --detach $(git -C /repo rev-parse HEAD) 2>/dev/null; git checkout -q -- . ; git clean -fdq
git apply "$patch" || { echo "patch does not apply"; exit 9; }
cd /verif
out=$(VERIF_REPO=$wt ./check $id --tier $tier 2>&1); rc=$?
git -C $wt checkout -q -- . ; git -C $wt clean -fdq
echo "$out" | grep -E "^(VIOLATION|BROKEN|UNCONFIRMED)" | cut -c1-260 | head -6
echo "$out" | tail -1 | cut -c1-200
echo "seedcheck_wt $id $(basename $(dirname $patch)) rc=$rc"
