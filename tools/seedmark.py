#!/usr/bin/env python3
"""usage: tools/seedmark.py <name e.g. C04-a> <detected yes|no|after-strengthening> <caught_by> [note] — update check_result of a saved seed"""
import json, sys
name, detected, caught = sys.argv[1:4]
note = sys.argv[4] if len(sys.argv) > 4 else ""
p = f"/verif/seeded/{name}/meta.json"
m = json.load(open(p))
m["check_result"].update({"detected": detected, "caught_by": caught, "note": note})
json.dump(m, open(p, "w"), indent=1)
print("marked", name)
