#!/bin/bash
# usage: tools/seedcheck.sh <patch.diff> <property-id> [tier]
# Applies a seeded change to /repo, runs the property's check, and ALWAYS restores /repo.
patch=$1; id=$2; tier=${3:-quick}
cd /repo || exit 9
if ! git diff --quiet; then echo "repo not clean"; exit 9; fi
git apply "$patch" || { echo "patch does not apply"; exit 9; }
cd /verif
out=$(./check $id --tier $tier 2>&1); rc=$?
git -C /repo checkout -- . ; git -C /repo clean -fdq
echo "$out" | grep -E "^(VIOLATION|BROKEN|UNCONFIRMED)" | cut -c1-260 | head -6
echo "$out" | tail -1 | cut -c1-200
echo "seedcheck $id $(basename $(dirname $patch)) rc=$rc"
