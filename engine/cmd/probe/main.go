package main

import (
	"fmt"
	"os"

	"golang.org/x/tools/go/packages"
	"golang.org/x/tools/go/ssa"
	"golang.org/x/tools/go/ssa/ssautil"
)

func main() {
	cfg := &packages.Config{Mode: packages.LoadAllSyntax, Dir: os.Args[1]}
	pkgs, err := packages.Load(cfg, os.Args[2])
	if err != nil {
		panic(err)
	}
	prog, spkgs := ssautil.AllPackages(pkgs, ssa.InstantiateGenerics)
	prog.Build()
	fmt.Println(len(spkgs), spkgs[0].Pkg.Path())
}
