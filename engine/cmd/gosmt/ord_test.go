package main

import (
	"math/rand"
	"testing"
)

// TestOrderRefuterIsSound: facts are random literals that hold under a random assignment; whatever the refuter
// then declares contradictory must be false under that assignment (8-bit words so that wrap-around is common).
func TestOrderRefuterIsSound(t *testing.T) {
	rng := rand.New(rand.NewSource(7))
	refuted := 0
	for iter := 0; iter < 200000; iter++ {
		tb := NewTermTable()
		const w = 8
		vars := []*Term{tb.Var("a", BV(w)), tb.Var("b", BV(w)), tb.Var("c", BV(w)), tb.Var("d", BV(w))}
		m := map[string]uint64{}
		for _, v := range vars {
			x := uint64(rng.Intn(256))
			switch rng.Intn(6) {
			case 0:
				x = 0
			case 1:
				x = 127
			case 2:
				x = 128
			case 3:
				x = uint64(rng.Intn(4))
			}
			m[v.name] = x
		}
		operand := func() *Term {
			switch rng.Intn(8) {
			case 0:
				return tb.Const([]uint64{0, 1, 127, 128, 255, uint64(rng.Intn(256))}[rng.Intn(6)], w)
			case 1:
				return tb.Bin(OpBvSub, vars[rng.Intn(4)], vars[rng.Intn(4)])
			case 2:
				return tb.Bin(OpBvAdd, tb.Const(1, w), vars[rng.Intn(4)])
			case 3:
				return tb.Bin(OpBvSub, tb.Const(127, w), vars[rng.Intn(4)])
			case 4:
				return tb.Bin(OpBvSub, vars[rng.Intn(4)], tb.Const(1, w))
			}
			return vars[rng.Intn(4)]
		}
		lit := func() *Term {
			a, b := operand(), operand()
			var l *Term
			switch rng.Intn(6) {
			case 0:
				l = tb.Eq(a, b)
			case 1:
				l = tb.Cmp(OpBvSlt, a, b)
			case 2:
				l = tb.Cmp(OpBvSle, a, b)
			case 3:
				l = tb.Cmp(OpBvUlt, a, b)
			case 4:
				l = tb.Cmp(OpBvUle, a, b)
			default:
				if rng.Intn(2) == 0 {
					l = tb.And(tb.Cmp(OpBvSle, a, b), tb.Cmp(OpBvSlt, operand(), operand()))
				} else {
					l = tb.Or(tb.Cmp(OpBvSle, a, b), tb.Eq(operand(), operand()))
				}
			}
			if rng.Intn(2) == 0 {
				l = tb.Not(l)
			}
			return l
		}
		o := newOrd(tb)
		for k := 0; k < 1+rng.Intn(7); k++ {
			l := lit()
			if l.Eval(m, map[*Term]uint64{}) == 1 {
				o.fact(l)
			}
		}
		for k := 0; k < 6; k++ {
			q := lit()
			if q.IsConst() {
				continue
			}
			if o.refutes(q) {
				refuted++
				if q.Eval(m, map[*Term]uint64{}) == 1 {
					t.Fatalf("iter %d: refuter wrongly rejects %s under %v", iter, q.Deep(6), m)
				}
			}
		}
	}
	if refuted < 1000 {
		t.Fatalf("refuter hardly ever fired (%d): the test does not exercise it", refuted)
	}
	t.Logf("refutations checked: %d", refuted)
}
