package main

import (
	"os"
	"fmt"
	"go/types"
	"math"
	"sort"
	"strings"

	"golang.org/x/tools/go/ssa"
)

// ErrV is an engine-level error object (identity + parent chain; message opaque).
type ErrV struct {
	id      int
	msg     string
	parents []IfaceV
}

// NativeObj is an engine-provided object usable behind an interface.
type NativeObj struct {
	name    string
	methods map[string]func(c *Ctx, args []Value) Value
}

func (n *NativeObj) call(c *Ctx, m string, args []Value) Value {
	if f, ok := n.methods[m]; ok {
		return f(c, args)
	}
	c.unsupported("native object " + n.name + " has no method " + m)
	return nil
}

func (n *NativeObj) implements(it *types.Interface) bool {
	for i := 0; i < it.NumMethods(); i++ {
		if _, ok := n.methods[it.Method(i).Name()]; !ok {
			return false
		}
	}
	return true
}

func (c *Ctx) newErr(msg string, parents ...IfaceV) IfaceV {
	var ps []IfaceV
	for _, p := range parents {
		if p.t != nil {
			ps = append(ps, p)
		}
	}
	return IfaceV{t: c.shared.errType, v: &ErrV{id: c.newErrID(), msg: msg, parents: ps}}
}

func (c *Ctx) errMethod(e *ErrV, name string, args []Value) Value {
	switch name {
	case "Error":
		return c.opaqueString("err:" + e.msg)
	case "Unwrap":
		if len(e.parents) > 0 {
			return e.parents[0]
		}
		return IfaceV{}
	}
	c.unsupported("method " + name + " on engine error")
	return nil
}

// opaqueString: a string whose content the engine does not track. Represented by concrete bytes of a marker;
// harness code must not compare it (assumption listed in evidence).
func (c *Ctx) opaqueString(tag string) StringV {
	return c.strConst("<opaque:" + tag + ">")
}

// errIs implements errors.Is over engine errors and interpreted error types.
func (c *Ctx) errIs(err, target IfaceV, depth int) *Term {
	if err.t == nil || target.t == nil {
		return c.tb.Bool(err.t == nil && target.t == nil)
	}
	if depth > 32 {
		c.unsupported("errors.Is chain too deep")
	}
	// direct comparison
	if types.Identical(err.t, target.t) && types.Comparable(err.t) {
		eq := c.eq(err.v, target.v)
		if eq.IsTrue() {
			return eq
		}
		if !eq.IsFalse() {
			if c.branch(eq) {
				return c.tb.tt
			}
		}
	}
	if ev, ok := err.v.(*ErrV); ok {
		for _, p := range ev.parents {
			if c.errIs(p, target, depth+1).IsTrue() {
				return c.tb.tt
			}
		}
		return c.tb.ff
	}
	// Is(error) bool method
	ms := c.shared.prog.MethodSets.MethodSet(err.t)
	for i := 0; i < ms.Len(); i++ {
		sel := ms.At(i)
		if sel.Obj().Name() == "Is" {
			sig := sel.Type().(*types.Signature)
			if sig.Params().Len() == 1 && sig.Results().Len() == 1 && isBool(sig.Results().At(0).Type()) {
				fn := c.shared.prog.MethodValue(sel)
				r := c.callFn(fn, []Value{err.v, target}, nil).(*Term)
				if c.branch(r) {
					return c.tb.tt
				}
			}
		}
	}
	for i := 0; i < ms.Len(); i++ {
		sel := ms.At(i)
		if sel.Obj().Name() == "Unwrap" {
			sig := sel.Type().(*types.Signature)
			if sig.Params().Len() == 0 && sig.Results().Len() == 1 {
				fn := c.shared.prog.MethodValue(sel)
				r := c.callFn(fn, []Value{err.v}, nil)
				switch u := r.(type) {
				case IfaceV:
					return c.errIs(u, target, depth+1)
				case SliceV:
					for _, e := range c.sliceElems(u) {
						if c.errIs(e.(IfaceV), target, depth+1).IsTrue() {
							return c.tb.tt
						}
					}
				}
			}
		}
	}
	return c.tb.ff
}

// errAs models errors.As: the first error in err's chain whose dynamic type is assignable to the variable
// behind target is stored there.
func (c *Ctx) errAs(err IfaceV, target IfaceV, depth int) bool {
	if err.t == nil {
		return false
	}
	if depth > 32 {
		c.unsupported("errors.As chain too deep")
	}
	pt, ok := unalias(target.t).(*types.Pointer)
	if !ok {
		c.unsupported("errors.As target is not a pointer")
	}
	want := pt.Elem()
	match := false
	if it, isIface := under(want).(*types.Interface); isIface {
		match = types.Implements(err.t, it)
	} else {
		match = types.Identical(err.t, want)
	}
	if _, engineErr := err.v.(*ErrV); match && !engineErr {
		if _, isIface := under(want).(*types.Interface); isIface {
			c.store(target.v.(PtrV), err)
		} else {
			c.store(target.v.(PtrV), err.v)
		}
		return true
	}
	if ev, ok := err.v.(*ErrV); ok {
		for _, p := range ev.parents {
			if c.errAs(p, target, depth+1) {
				return true
			}
		}
		return false
	}
	ms := c.shared.prog.MethodSets.MethodSet(err.t)
	for i := 0; i < ms.Len(); i++ {
		sel := ms.At(i)
		if sel.Obj().Name() == "Unwrap" {
			sig := sel.Type().(*types.Signature)
			if sig.Params().Len() == 0 && sig.Results().Len() == 1 {
				fn := c.shared.prog.MethodValue(sel)
				r := c.callFn(fn, []Value{err.v}, nil)
				switch u := r.(type) {
				case IfaceV:
					return c.errAs(u, target, depth+1)
				case SliceV:
					for _, e := range c.sliceElems(u) {
						if c.errAs(e.(IfaceV), target, depth+1) {
							return true
						}
					}
				}
			}
		}
	}
	return false
}

// ---------- locks ----------

type lockState struct {
	writer  bool
	readers int
	name    string
}

func (c *Ctx) lockOf(p PtrV) *lockState {
	k := p.key()
	l, ok := c.locks[k]
	if !ok {
		l = &lockState{name: k}
		c.locks[k] = l
	}
	return l
}

// ---------- lock order ----------
//
// Every blocking Lock/RLock taken while other locks are held adds an edge held -> taken between lock classes
// (the static identity of a lock: the type that declares it and the field path, not the object), together with
// the call stack of the first occurrence. After the exploration the union of the edges over all explored paths
// is searched for cycles: two code paths that take two locks in opposite orders can deadlock when they run
// concurrently (for RWMutex read locks as well: a writer queued between the two readers blocks the second one).

type heldLock struct {
	key, class string
	read       bool
	// hdepth is the number of harness frames on the stack when the lock was taken. Interleaving harnesses run a
	// second operation from a hook inside the first one, on the same engine stack; the locks the outer operation
	// holds belong to another goroutine and must not order the inner operation's locks.
	hdepth int
}

func (c *Ctx) harnessDepth() int {
	// code the engine runs synchronously in place of a spawned goroutine is another goroutine as well
	n := 1000 * c.goDepth
	for fr := c.cur; fr != nil; fr = fr.caller {
		if c.isHarnessFn(fr.fn) {
			n++
		}
	}
	return n
}

type lockEdge struct {
	From, To       string
	FromRead, Read bool
	Where          string
	// Held: every lock class held at the acquisition (including From), true = held in read mode only
	Held map[string]bool
}

func namedClass(n *types.Named) string {
	return types.TypeString(n, func(p *types.Package) string { return p.Name() })
}

func (c *Ctx) lockClass(p PtrV) string {
	if p.obj == nil {
		return "?"
	}
	t := p.obj.t
	var sb strings.Builder
	root := ""
	for _, i := range p.path {
		if t == nil {
			break
		}
		switch u := t.Underlying().(type) {
		case *types.Struct:
			if n, ok := t.(*types.Named); ok {
				// restart the name at the innermost named struct: the class of a lock does not depend on where the
				// struct that declares it is embedded; instantiations of a generic type are different classes
				root = namedClass(n)
				sb.Reset()
			}
			if i < u.NumFields() {
				sb.WriteString("." + u.Field(i).Name())
				t = u.Field(i).Type()
			} else {
				t = nil
			}
		case *types.Array:
			sb.WriteString("[]")
			t = u.Elem()
		case *types.Slice:
			sb.WriteString("[]")
			t = u.Elem()
		case *types.Pointer:
			t = u.Elem()
		default:
			t = nil
		}
	}
	if root == "" {
		if n, ok := p.obj.t.(*types.Named); ok {
			root = namedClass(n)
		} else {
			root = p.obj.t.String()
		}
	}
	return root + sb.String()
}

func (c *Ctx) noteAcquire(p PtrV, read bool) {
	class := c.lockClass(p)
	key := p.key()
	hd := c.harnessDepth()
	if len(c.shared.serialFns) > 0 {
		for fr := c.cur; fr != nil; fr = fr.caller {
			if c.shared.serialFns[fr.fn.String()] {
				c.held = append(c.held, heldLock{key: key, class: class, read: read, hdepth: -1})
				return
			}
		}
	}
	held := map[string]bool{}
	for _, h := range c.held {
		if h.hdepth != hd {
			continue
		}
		if r, ok := held[h.class]; !ok || (r && !h.read) {
			held[h.class] = h.read
		}
	}
	if !read {
		c.shared.noteWriteAcquire(class, held)
	}
	for _, h := range c.held {
		if h.key == key || h.class == class || h.hdepth != hd {
			continue
		}
		c.shared.addLockEdge(lockEdge{From: h.class, To: class, FromRead: h.read, Read: read, Where: c.where(), Held: held})
	}
	c.held = append(c.held, heldLock{key: key, class: class, read: read, hdepth: hd})
}

func (c *Ctx) noteRelease(p PtrV, read bool) {
	key := p.key()
	for i := len(c.held) - 1; i >= 0; i-- {
		if c.held[i].key == key && c.held[i].read == read {
			c.held = append(c.held[:i], c.held[i+1:]...)
			return
		}
	}
}

func (s *Shared) addLockEdge(e lockEdge) {
	s.mu.Lock()
	defer s.mu.Unlock()
	if s.lockEdges == nil {
		s.lockEdges = map[string]lockEdge{}
	}
	k := e.From + "->" + e.To
	if os.Getenv("GOSMT_LOCKDEBUG") != "" {
		fmt.Fprintf(os.Stderr, "lock-edge %s fromRead=%v read=%v held=%v at%s\n", k, e.FromRead, e.Read, e.Held, e.Where)
	}
	if old, ok := s.lockEdges[k]; !ok {
		s.lockEdges[k] = e
	} else {
		// keep the weakest context seen for this edge: only locks held (and held exclusively) at every occurrence
		// can serve as gates
		for g, r := range old.Held {
			r2, ok := e.Held[g]
			if !ok {
				delete(old.Held, g)
			} else if r2 && !r {
				old.Held[g] = true
			}
		}
		old.Read = old.Read && e.Read
		old.FromRead = old.FromRead && e.FromRead
		s.lockEdges[k] = old
	}
}

// noteWriteAcquire records, per lock class, the locks that were held exclusively at every exclusive acquisition
// of that class seen so far (its write gates).
func (s *Shared) noteWriteAcquire(class string, held map[string]bool) {
	s.mu.Lock()
	defer s.mu.Unlock()
	if s.writeGates == nil {
		s.writeGates = map[string]map[string]bool{}
	}
	g, ok := s.writeGates[class]
	if !ok {
		g = map[string]bool{}
		for h, r := range held {
			if !r {
				g[h] = true
			}
		}
		s.writeGates[class] = g
		return
	}
	for h := range g {
		if r, ok := held[h]; !ok || r {
			delete(g, h)
		}
	}
}

// blocked: can the acquisition at the head of edge e (thread holds e.From, wants e.To) wait for ever on the other
// thread of a 2-cycle, which holds e.To in mode otherRead? A write request or a write holder conflicts directly.
// Two read locks only conflict when a third goroutine is queued for the write lock in between; that cannot happen
// when every exclusive acquisition of e.To seen anywhere is made under an exclusive lock that this thread holds
// (in any mode) while it waits.
func (s *Shared) blocked(e lockEdge, otherRead bool) bool {
	if !e.Read || !otherRead {
		return true
	}
	gates, seen := s.writeGates[e.To]
	if !seen {
		return false // nobody ever takes it exclusively on the explored paths
	}
	for g := range gates {
		if _, ok := e.Held[g]; ok {
			return false
		}
	}
	return true
}

// lockCycles returns one description per deadlock-capable cycle of length 2 in the lock-order graph (longer
// cycles are not searched: stated bound of the check).
func (s *Shared) lockCycles() []string {
	var out []string
	for _, e := range s.lockEdges {
		if e.From >= e.To {
			continue
		}
		r, ok := s.lockEdges[e.To+"->"+e.From]
		if !ok {
			continue
		}
		// thread 1 holds e.From (e.FromRead) and wants e.To (e.Read); thread 2 holds r.From == e.To (r.FromRead) and
		// wants r.To == e.From (r.Read)
		if !s.blocked(e, r.FromRead) || !s.blocked(r, e.FromRead) {
			continue
		}
		// a lock both threads hold, one of them exclusively, serialises the two sections
		gated := false
		for g, r1 := range e.Held {
			if g == e.From || g == e.To {
				continue
			}
			if r2, ok := r.Held[g]; ok && (!r1 || !r2) {
				gated = true
			}
		}
		if gated {
			continue
		}
		mode := func(b bool) string {
			if b {
				return "R"
			}
			return "W"
		}
		out = append(out, fmt.Sprintf("%s(%s) then %s(%s) at%s  ||  %s(%s) then %s(%s) at%s",
			e.From, mode(e.FromRead), e.To, mode(e.Read), e.Where, r.From, mode(r.FromRead), r.To, mode(r.Read), r.Where))
	}
	sort.Strings(out)
	return out
}

func (c *Ctx) lockMisuse(msg string) {
	vec := []uint64(nil)
	if c.solver != nil {
		if c.solver.Check(nil, false) == Sat {
			vec = c.modelVector()
		}
		c.solver.EndCheck()
	}
	c.reportViolation("lock", "lock-discipline", msg+c.where(), vec, "")
	panic(pathEnd{"lock-misuse", msg})
}

func (c *Ctx) where() string {
	var sb strings.Builder
	n, depth := 0, 6
	if os.Getenv("GOSMT_PANICWHERE") != "" {
		depth = 24
	}
	for fr := c.cur; fr != nil && n < depth; fr = fr.caller {
		sb.WriteString(" <- " + fr.fn.String())
		n++
	}
	return sb.String()
}

func (c *Ctx) checkLocksReleased() {
	for k, l := range c.locks {
		if l.writer || l.readers > 0 {
			_ = k
			if c.shared.opts.Concrete == nil && c.extra["allowHeldLocks"] == nil {
				c.reportViolation("lock", "lock-left-held", "lock "+k+" still held at the end of the harness", nil, "")
			}
		}
	}
}

// ---------- intrinsic table ----------

type intrinsic func(c *Ctx, fn *ssa.Function, args []Value) Value

var intrinsics = map[string]intrinsic{}

func init() {

	reg := func(names string, f intrinsic) {
		for _, n := range strings.Fields(names) {
			intrinsics[n] = f
		}
	}
	// ---- sync ----
	reg("(*sync.Mutex).Lock (*sync.RWMutex).Lock", func(c *Ctx, fn *ssa.Function, a []Value) Value {
		l := c.lockOf(a[0].(PtrV))
		if l.writer || l.readers > 0 {
			c.lockMisuse("Lock of a lock already held on this goroutine (self-deadlock)")
		}
		l.writer = true
		c.noteAcquire(a[0].(PtrV), false)
		return nil
	})
	reg("(*sync.Mutex).Unlock (*sync.RWMutex).Unlock", func(c *Ctx, fn *ssa.Function, a []Value) Value {
		l := c.lockOf(a[0].(PtrV))
		if !l.writer {
			c.lockMisuse("Unlock of an unlocked lock")
		}
		l.writer = false
		c.noteRelease(a[0].(PtrV), false)
		return nil
	})
	reg("(*sync.Mutex).TryLock (*sync.RWMutex).TryLock", func(c *Ctx, fn *ssa.Function, a []Value) Value {
		l := c.lockOf(a[0].(PtrV))
		if l.writer || l.readers > 0 {
			return c.tb.ff
		}
		l.writer = true
		c.held = append(c.held, heldLock{key: a[0].(PtrV).key(), class: c.lockClass(a[0].(PtrV)), hdepth: c.harnessDepth()})
		return c.tb.tt
	})
	reg("(*sync.RWMutex).RLock", func(c *Ctx, fn *ssa.Function, a []Value) Value {
		l := c.lockOf(a[0].(PtrV))
		if l.writer {
			c.lockMisuse("RLock while holding the write lock (self-deadlock)")
		}
		l.readers++
		c.noteAcquire(a[0].(PtrV), true)
		return nil
	})
	reg("(*sync.RWMutex).RUnlock", func(c *Ctx, fn *ssa.Function, a []Value) Value {
		l := c.lockOf(a[0].(PtrV))
		if l.readers == 0 {
			c.lockMisuse("RUnlock of a lock not read-locked")
		}
		l.readers--
		c.noteRelease(a[0].(PtrV), true)
		return nil
	})
	reg("(*sync.RWMutex).TryRLock", func(c *Ctx, fn *ssa.Function, a []Value) Value {
		l := c.lockOf(a[0].(PtrV))
		if l.writer {
			return c.tb.ff
		}
		l.readers++
		c.held = append(c.held, heldLock{key: a[0].(PtrV).key(), class: c.lockClass(a[0].(PtrV)), read: true, hdepth: c.harnessDepth()})
		return c.tb.tt
	})
	reg("(*sync.Once).Do", func(c *Ctx, fn *ssa.Function, a []Value) Value {
		p := a[0].(PtrV)
		k := "once:" + p.key()
		if c.extra[k] == nil {
			c.extra[k] = true
			c.callValue(a[1], nil, nil)
		}
		return nil
	})
	reg("(*sync.WaitGroup).Add (*sync.WaitGroup).Done (*sync.WaitGroup).Wait", func(c *Ctx, fn *ssa.Function, a []Value) Value {
		return nil
	})
	// uuid.New / NewRandom: distinct, deterministic identifiers (randomness is environment; nothing here depends
	// on the bits of a random UUID beyond distinctness)
	newUUID := func(c *Ctx) *ArrayV {
		n, _ := c.extra["uuidN"].(int)
		c.extra["uuidN"] = n + 1
		a := &ArrayV{e: make([]Value, 16)}
		for i := range a.e {
			a.e[i] = c.tb.Const(0, 8)
		}
		a.e[0] = c.tb.Const(0xee, 8)
		a.e[6] = c.tb.Const(0x40, 8) // version 4
		a.e[8] = c.tb.Const(0x80, 8) // variant
		a.e[14] = c.tb.Const(uint64((n+1)>>8)&0xff, 8)
		a.e[15] = c.tb.Const(uint64(n+1)&0xff, 8)
		return a
	}
	reg("github.com/google/uuid.New", func(c *Ctx, fn *ssa.Function, a []Value) Value { return newUUID(c) })
	reg("github.com/google/uuid.NewRandom", func(c *Ctx, fn *ssa.Function, a []Value) Value {
		return TupleV{newUUID(c), IfaceV{}}
	})
	// runtime/pprof labels are profiling metadata: Do just runs the function
	reg("runtime/pprof.Do", func(c *Ctx, fn *ssa.Function, a []Value) Value {
		c.callValue(a[2], []Value{a[0]}, nil)
		return nil
	})
	reg("runtime/pprof.Labels", func(c *Ctx, fn *ssa.Function, a []Value) Value {
		return c.zero(fn.Signature.Results().At(0).Type())
	})
	// sort.Slice / sort.SliceStable: the reflection-based element swapper is provided by the engine, the sorting
	// algorithm itself (pdqsort_func / stable_func) is the real one, interpreted from source
	sortSlice := func(algo string) intrinsic {
		return func(c *Ctx, fn *ssa.Function, a []Value) Value {
			iv := a[0].(IfaceV)
			sl, ok := iv.v.(SliceV)
			if !ok {
				c.unsupported("sort.Slice on a non-slice")
			}
			swap := &ClosureV{native: func(c *Ctx, args []Value) Value {
				i := int(c.concretizeInt(args[0].(*Term), "sort swap index"))
				j := int(c.concretizeInt(args[1].(*Term), "sort swap index"))
				if i < 0 || j < 0 || i >= sl.len || j >= sl.len {
					c.goPanic("index out of range in sort swap", nil)
				}
				arr := c.load(sl.base).(*ArrayV)
				arr.e[sl.off+i], arr.e[sl.off+j] = arr.e[sl.off+j], arr.e[sl.off+i]
				return nil
			}}
			pkg := c.shared.prog.ImportedPackage("sort")
			if pkg == nil {
				c.unsupported("package sort not loaded")
			}
			ls := &StructV{f: []Value{a[1], swap}} // sort.lessSwap{Less, Swap}
			n := c.tb.Const(uint64(sl.len), 64)
			if algo == "stable_func" {
				c.callFn(pkg.Func("stable_func"), []Value{ls, n}, nil)
				return nil
			}
			limit := 0
			for x := sl.len; x > 0; x >>= 1 {
				limit++
			}
			c.callFn(pkg.Func("pdqsort_func"), []Value{ls, c.tb.Const(0, 64), n, c.tb.Const(uint64(limit), 64)}, nil)
			return nil
		}
	}
	reg("sort.Slice", sortSlice("pdqsort_func"))
	reg("sort.SliceStable", sortSlice("stable_func"))
	reg("math/rand.Int math/rand/v2.Int", func(c *Ctx, fn *ssa.Function, a []Value) Value {
		n, _ := c.extra["randN"].(int)
		c.extra["randN"] = n + 1
		return c.tb.Const(uint64(4242+n), 64) // randomness is environment: distinct, deterministic values
	})
	// sync.Pool: a LIFO free list per pool (single goroutine); Get on an empty pool calls New
	reg("(*sync.Pool).Get", func(c *Ctx, fn *ssa.Function, a []Value) Value {
		p := a[0].(PtrV)
		k := "pool:" + p.key()
		if items, _ := c.extra[k].([]Value); len(items) > 0 {
			c.extra[k] = items[:len(items)-1]
			return items[len(items)-1]
		}
		// field New func() any
		if st, ok := under(c.typeOfPtr(p)).(*types.Struct); ok {
			for i := 0; i < st.NumFields(); i++ {
				if st.Field(i).Name() == "New" {
					nf := c.load(PtrV{obj: p.obj, path: append(append([]int{}, p.path...), i)})
					if cl, ok := nf.(*ClosureV); ok && cl != nil {
						return c.callValue(cl, nil, nil)
					}
				}
			}
		}
		return IfaceV{}
	})
	reg("(*sync.Pool).Put", func(c *Ctx, fn *ssa.Function, a []Value) Value {
		p := a[0].(PtrV)
		k := "pool:" + p.key()
		items, _ := c.extra[k].([]Value)
		c.extra[k] = append(items, a[1])
		return nil
	})
	// ---- sync/atomic (free functions over plain cells) ----
	atomicLoad := func(c *Ctx, fn *ssa.Function, a []Value) Value { return c.load(a[0].(PtrV)) }
	atomicStore := func(c *Ctx, fn *ssa.Function, a []Value) Value { c.store(a[0].(PtrV), a[1]); return nil }
	atomicAdd := func(c *Ctx, fn *ssa.Function, a []Value) Value {
		p := a[0].(PtrV)
		nv := c.tb.Bin(OpBvAdd, c.load(p).(*Term), a[1].(*Term))
		c.store(p, nv)
		return nv
	}
	atomicSwap := func(c *Ctx, fn *ssa.Function, a []Value) Value {
		p := a[0].(PtrV)
		old := c.load(p)
		c.store(p, a[1])
		return old
	}
	atomicCAS := func(c *Ctx, fn *ssa.Function, a []Value) Value {
		p := a[0].(PtrV)
		cur := c.load(p)
		if c.branch(c.eq(cur, a[1])) {
			c.store(p, a[2])
			return c.tb.tt
		}
		return c.tb.ff
	}
	for _, t := range []string{"Int32", "Int64", "Uint32", "Uint64", "Uintptr", "Pointer"} {
		intrinsics["sync/atomic.Load"+t] = atomicLoad
		intrinsics["sync/atomic.Store"+t] = atomicStore
		intrinsics["sync/atomic.Swap"+t] = atomicSwap
		intrinsics["sync/atomic.CompareAndSwap"+t] = atomicCAS
		if t != "Pointer" {
			intrinsics["sync/atomic.Add"+t] = atomicAdd
		}
	}
	reg("sync/atomic.AndInt32 sync/atomic.AndUint32 sync/atomic.AndInt64 sync/atomic.AndUint64", func(c *Ctx, fn *ssa.Function, a []Value) Value {
		p := a[0].(PtrV)
		old := c.load(p).(*Term)
		c.store(p, c.tb.Bin(OpBvAnd, old, a[1].(*Term)))
		return old
	})
	reg("sync/atomic.OrInt32 sync/atomic.OrUint32 sync/atomic.OrInt64 sync/atomic.OrUint64", func(c *Ctx, fn *ssa.Function, a []Value) Value {
		p := a[0].(PtrV)
		old := c.load(p).(*Term)
		c.store(p, c.tb.Bin(OpBvOr, old, a[1].(*Term)))
		return old
	})
	// ---- errors ----
	newErr := func(c *Ctx, fn *ssa.Function, a []Value) Value {
		msg := "error"
		if s, ok := a[0].(StringV); ok {
			if cs, ok := s.concrete(); ok {
				msg = cs
			}
		}
		var parents []IfaceV
		if len(a) > 1 {
			if sl, ok := a[1].(SliceV); ok { // variadic args: %w parents
				for _, e := range c.sliceElems(sl) {
					if iv, ok := e.(IfaceV); ok && iv.t != nil && c.isErrorValue(iv) {
						parents = append(parents, iv)
					}
				}
			}
		}
		return c.newErr(msg, parents...)
	}
	reg("github.com/synnaxlabs/x/errors.New github.com/synnaxlabs/x/errors.Newf errors.New fmt.Errorf "+
		"github.com/cockroachdb/errors.New github.com/cockroachdb/errors.Newf github.com/cockroachdb/errors.Errorf", newErr)
	wrap := func(c *Ctx, fn *ssa.Function, a []Value) Value {
		e := a[0].(IfaceV)
		if e.t == nil {
			return IfaceV{}
		}
		msg := "wrap"
		if len(a) > 1 {
			if s, ok := a[1].(StringV); ok {
				if cs, ok := s.concrete(); ok {
					msg = cs
				}
			}
		}
		return c.newErr(msg, e)
	}
	reg("github.com/synnaxlabs/x/errors.Wrap github.com/synnaxlabs/x/errors.Wrapf github.com/cockroachdb/errors.Wrap github.com/cockroachdb/errors.Wrapf", wrap)
	reg("github.com/synnaxlabs/x/errors.WithStack github.com/synnaxlabs/x/errors.WithStackDepth github.com/cockroachdb/errors.WithStack github.com/cockroachdb/errors.WithStackDepth",
		func(c *Ctx, fn *ssa.Function, a []Value) Value { return a[0] })
	reg("github.com/synnaxlabs/x/errors.Is github.com/synnaxlabs/x/errors.CheapIs errors.Is github.com/cockroachdb/errors.Is",
		func(c *Ctx, fn *ssa.Function, a []Value) Value {
			return c.errIs(a[0].(IfaceV), a[1].(IfaceV), 0)
		})
	reg("github.com/synnaxlabs/x/errors.As errors.As github.com/cockroachdb/errors.As",
		func(c *Ctx, fn *ssa.Function, a []Value) Value {
			return c.tb.Bool(c.errAs(a[0].(IfaceV), a[1].(IfaceV), 0))
		})
	reg("github.com/synnaxlabs/x/errors.Combine github.com/cockroachdb/errors.CombineErrors", func(c *Ctx, fn *ssa.Function, a []Value) Value {
		e1, e2 := a[0].(IfaceV), a[1].(IfaceV)
		if e1.t == nil {
			return e2
		}
		if e2.t == nil {
			return e1
		}
		return c.newErr("combined", e1, e2)
	})
	reg("github.com/synnaxlabs/x/errors.Join errors.Join github.com/cockroachdb/errors.Join", func(c *Ctx, fn *ssa.Function, a []Value) Value {
		var ps []IfaceV
		for _, e := range c.sliceElems(a[0].(SliceV)) {
			if iv := e.(IfaceV); iv.t != nil {
				ps = append(ps, iv)
			}
		}
		if len(ps) == 0 {
			return IfaceV{}
		}
		return c.newErr("joined", ps...)
	})
	// validate.PathedError: path bookkeeping (regexp, errors.As) is formatting. The returned PathError has
	// neither Unwrap nor Is, so errors.Is does not see through it: the result has no ancestry.
	reg("github.com/synnaxlabs/x/validate.PathedError", func(c *Ctx, fn *ssa.Function, a []Value) Value {
		return c.newErr("pathed")
	})
	// ---- fmt / strconv (opaque unless concrete) ----
	reg("fmt.Sprintf", func(c *Ctx, fn *ssa.Function, a []Value) Value {
		f, ok := a[0].(StringV).concrete()
		if ok {
			var nat []any
			all := true
			for _, e := range c.sliceElems(a[1].(SliceV)) {
				n, ok := c.nativeOf(e)
				if !ok {
					all = false
					break
				}
				nat = append(nat, n)
			}
			if all {
				return c.strConst(fmt.Sprintf(f, nat...))
			}
		}
		return c.opaqueString("sprintf")
	})
	reg("fmt.Sprint fmt.Sprintln", func(c *Ctx, fn *ssa.Function, a []Value) Value { return c.opaqueString("sprint") })
	reg("strconv.Itoa", func(c *Ctx, fn *ssa.Function, a []Value) Value {
		if t := a[0].(*Term); t.IsConst() {
			return c.strConst(fmt.Sprint(int64(t.val)))
		}
		return c.opaqueString("itoa")
	})
	// ---- slices helpers that use unsafe pointer arithmetic ----
	reg("slices.overlaps", func(c *Ctx, fn *ssa.Function, a []Value) Value {
		x, y := a[0].(SliceV), a[1].(SliceV)
		if x.len == 0 || y.len == 0 || x.isNil() || y.isNil() {
			return c.tb.ff
		}
		if !samePtr(x.base, y.base) {
			return c.tb.ff
		}
		return c.tb.Bool(x.off < y.off+y.len && y.off < x.off+x.len)
	})
	reg("slices.startIdx", func(c *Ctx, fn *ssa.Function, a []Value) Value {
		haystack, needle := a[0].(SliceV), a[1].(SliceV)
		if needle.isNil() || haystack.isNil() || !samePtr(haystack.base, needle.base) {
			c.unsupported("slices.startIdx on unrelated slices")
		}
		i := needle.off - haystack.off
		if i < 0 || i > haystack.cap {
			c.unsupported("slices.startIdx: needle not in haystack")
		}
		return c.intConst(i)
	})
	// ---- randomness: an arbitrary choice, explored exhaustively ----
	reg("github.com/synnaxlabs/x/rand.SubMap", func(c *Ctx, fn *ssa.Function, a []Value) Value {
		m := a[0].(*MapV)
		n := int(c.concretizeInt(a[1].(*Term), "SubMap size"))
		var entries []mapEntry
		if m != nil {
			entries = m.entries
		}
		if n > len(entries) {
			c.unsupported("rand.SubMap asked for more elements than the map holds (does not terminate)")
		}
		c.nextObj++
		out := &MapV{id: c.nextObj}
		if m != nil {
			out.kt, out.vt = m.kt, m.vt
		}
		// choose an arbitrary subset of exactly n entries: for each entry decide in/out while feasible
		need := n
		for i, e := range entries {
			remaining := len(entries) - i
			if need == 0 {
				break
			}
			take := true
			if remaining > need {
				take = c.chooseAll(2) == 0
			}
			if take {
				out.entries = append(out.entries, e)
				need--
			}
		}
		return out
	})
	reg("github.com/synnaxlabs/x/rand.MapElem github.com/synnaxlabs/x/rand.MapValue github.com/synnaxlabs/x/rand.MapKey", func(c *Ctx, fn *ssa.Function, a []Value) Value {
		m := a[0].(*MapV)
		if m == nil || len(m.entries) == 0 {
			switch fn.Name() {
			case "MapElem":
				return TupleV{c.zero(fn.Signature.Results().At(0).Type()), c.zero(fn.Signature.Results().At(1).Type())}
			}
			return c.zero(fn.Signature.Results().At(0).Type())
		}
		i := 0
		if len(m.entries) > 1 {
			i = c.chooseAll(len(m.entries))
		}
		e := m.entries[i]
		switch fn.Name() {
		case "MapElem":
			return TupleV{e.k, e.v}
		case "MapKey":
			return e.k
		}
		return e.v
	})
	// ---- errgroup: Go(f) runs f synchronously, Wait returns the first error ----
	reg("(*golang.org/x/sync/errgroup.Group).Go", func(c *Ctx, fn *ssa.Function, a []Value) Value {
		k := "errgroup:" + a[0].(PtrV).key()
		c.goDepth++
		r := c.callValue(a[1], nil, nil).(IfaceV)
		c.goDepth--
		if r.t != nil && c.extra[k] == nil {
			c.extra[k] = r
		}
		return nil
	})
	reg("(*golang.org/x/sync/errgroup.Group).Wait", func(c *Ctx, fn *ssa.Function, a []Value) Value {
		k := "errgroup:" + a[0].(PtrV).key()
		if e, ok := c.extra[k].(IfaceV); ok {
			return e
		}
		return IfaceV{}
	})
	// ---- context: deadlines and cancellation are not modelled (ctx.Err() stays nil unless the harness supplies its own context)
	// context.WithCancel/WithTimeout/WithDeadline: a derived context whose Err()/Done() reflect an explicit cancel()
	// (deadlines never fire: time is not modelled) and an already cancelled parent at creation time.
	ctxWith := func(c *Ctx, fn *ssa.Function, a []Value) Value {
		parent := a[0].(IfaceV)
		cancelled := false
		expired := false
		c.nextObj++
		done := &ChanV{id: c.nextObj}
		if fn.Name() != "WithCancel" {
			// a deadline fires only when the goroutine has nothing left to do but wait for it
			done.onBlock = func() {
				if !cancelled {
					cancelled, expired = true, true
					done.closed = true
				}
			}
		}
		canceledErr := func() Value {
			pkg := c.shared.prog.ImportedPackage("context")
			if pkg == nil {
				return c.newErr("context canceled")
			}
			name := "Canceled"
			if expired {
				name = "DeadlineExceeded"
			}
			g := pkg.Var(name)
			return c.load(PtrV{obj: c.globalObj(g)})
		}
		var obj *NativeObj
		obj = &NativeObj{name: "context.cancelCtx(model)", methods: map[string]func(c *Ctx, args []Value) Value{
			"Err": func(c *Ctx, args []Value) Value {
				if cancelled {
					return canceledErr()
				}
				if parent.t != nil {
					return c.invokeByName(parent, "Err", nil)
				}
				return IfaceV{}
			},
			"Done": func(c *Ctx, args []Value) Value { return done },
			"Deadline": func(c *Ctx, args []Value) Value {
				return TupleV{c.zero(fn.Signature.Params().At(0).Type().Underlying().(*types.Interface).Method(0).Type().(*types.Signature).Results().At(0).Type()), c.tb.ff}
			},
			"Value": func(c *Ctx, args []Value) Value {
				if parent.t != nil {
					return c.invokeByName(parent, "Value", args)
				}
				return IfaceV{}
			},
		}}
		cancel := &ClosureV{native: func(c *Ctx, args []Value) Value {
			if !cancelled {
				cancelled = true
				done.closed = true
			}
			return nil
		}}
		return TupleV{IfaceV{t: c.shared.errType, v: obj}, cancel}
	}
	reg("context.WithTimeout context.WithCancel context.WithDeadline", ctxWith)
	reg("context.WithoutCancel", func(c *Ctx, fn *ssa.Function, a []Value) Value { return a[0] })
	// ---- clock: an arbitrary non-decreasing, non-negative instant (not part of the replay vector) ----
	reg("github.com/synnaxlabs/x/telem.Now", func(c *Ctx, fn *ssa.Function, a []Value) Value {
		n, _ := c.extra["clockN"].(int)
		c.extra["clockN"] = n + 1
		v := c.tb.Var(fmt.Sprintf("clk%d", n), BV(64))
		c.auxVars = append(c.auxVars, v) // part of every cached model, not of the replay vector
		c.assume(c.tb.Cmp(OpBvSle, c.tb.Const(0, 64), v))
		if prev, ok := c.extra["clockPrev"].(*Term); ok {
			c.assume(c.tb.Cmp(OpBvSle, prev, v))
		}
		c.extra["clockPrev"] = v
		return v
	})
	// time.Now: only used for file modification times in the in-memory file system; returns the zero Time
	reg("time.Now", func(c *Ctx, fn *ssa.Function, a []Value) Value {
		return c.zero(fn.Signature.Results().At(0).Type())
	})
	// ---- math on concrete floats ----
	fl1 := func(f func(float64) float64) intrinsic {
		return func(c *Ctx, fn *ssa.Function, a []Value) Value {
			x := a[0].(FloatV)
			return FloatV{f(x.f), x.bits}
		}
	}
	reg("math.Round", fl1(math.Round))
	reg("math.Floor", fl1(math.Floor))
	reg("math.Ceil", fl1(math.Ceil))
	reg("math.Trunc", fl1(math.Trunc))
	reg("math.Abs", fl1(math.Abs))
	reg("math.Sqrt", fl1(math.Sqrt))
	// ---- runtime / misc ----
	reg("runtime.Gosched runtime.GC runtime.KeepAlive", func(c *Ctx, fn *ssa.Function, a []Value) Value { return nil })
	reg("(*go.uber.org/zap.Logger).Check", func(c *Ctx, fn *ssa.Function, a []Value) Value { return PtrV{} })
}

func (c *Ctx) isErrorValue(iv IfaceV) bool {
	if _, ok := iv.v.(*ErrV); ok {
		return true
	}
	ms := c.shared.prog.MethodSets.MethodSet(iv.t)
	for i := 0; i < ms.Len(); i++ {
		if ms.At(i).Obj().Name() == "Error" {
			return true
		}
	}
	return false
}

// nativeOf converts a concrete engine value into a Go value for fmt.
func (c *Ctx) nativeOf(v Value) (any, bool) {
	switch x := v.(type) {
	case IfaceV:
		if x.t == nil {
			return nil, true
		}
		n, ok := c.nativeOf(x.v)
		if !ok {
			return nil, false
		}
		if t, isT := x.v.(*Term); isT && t.sort.bits > 0 {
			if bn, signed, ok := isInt(x.t); ok {
				if signed {
					return signExt(t.val, bn), true
				}
				return t.val, true
			}
		}
		return n, true
	case *Term:
		if !x.IsConst() {
			return nil, false
		}
		if x.sort.bits == 0 {
			return x.val == 1, true
		}
		return x.val, true
	case StringV:
		s, ok := x.concrete()
		return s, ok
	case FloatV:
		return x.f, true
	}
	return nil, false
}

// invokeByName calls a method of an interface value by name (used by engine-provided wrappers).
func (c *Ctx) invokeByName(iv IfaceV, name string, args []Value) Value {
	if no, ok := iv.v.(*NativeObj); ok {
		return no.call(c, name, args)
	}
	ms := c.shared.prog.MethodSets.MethodSet(iv.t)
	for i := 0; i < ms.Len(); i++ {
		if ms.At(i).Obj().Name() == name {
			fn := c.shared.prog.MethodValue(ms.At(i))
			return c.callFn(fn, append([]Value{iv.v}, args...), nil)
		}
	}
	c.unsupported("method " + name + " not found on " + iv.t.String())
	return nil
}
