// gosmt: a bounded symbolic executor for Go SSA that discharges harness assertions with an SMT solver.
package main

import (
	"runtime/debug"
	"runtime/pprof"
	"crypto/sha256"
	"encoding/json"
	"flag"
	"fmt"
	"go/ast"
	"go/token"
	"go/types"
	"os"
	"path/filepath"
	"regexp"
	"sort"
	"strings"
	"time"

	"golang.org/x/tools/go/packages"
	"golang.org/x/tools/go/ssa"
	"golang.org/x/tools/go/ssa/ssautil"
)

const goBin = "/opt/veriftools/go1.26.8/bin"

type guardSpec struct {
	structName string // e.g. "domain.index" (package-name.type) of the struct that owns the field path
	field      string
	mutex      string
}

func fatal(f string, a ...any) {
	fmt.Fprintf(os.Stderr, "gosmt: "+f+"\n", a...)
	os.Exit(3)
}

// collectOverlay maps every file under harnessRoot (laid out as <repo-relative dir>/<file>.go) into repoRoot.
func collectOverlay(harnessRoot, repoRoot string) (map[string][]byte, map[string]string, error) {
	ov := map[string][]byte{}
	src := map[string]string{}
	pkgDirs := map[string]string{} // target dir -> package name
	err := filepath.Walk(harnessRoot, func(p string, info os.FileInfo, err error) error {
		if err != nil || info.IsDir() || !strings.HasSuffix(p, ".go") {
			return err
		}
		if strings.HasSuffix(p, "_test.go") {
			return nil
		}
		rel, _ := filepath.Rel(harnessRoot, p)
		dst := filepath.Join(repoRoot, rel)
		b, err := os.ReadFile(p)
		if err != nil {
			return err
		}
		ov[dst] = b
		src[dst] = p
		m := regexp.MustCompile(`(?m)^package\s+(\w+)`).FindSubmatch(b)
		if m != nil {
			pkgDirs[filepath.Dir(dst)] = string(m[1])
		}
		return nil
	})
	if err != nil {
		return nil, nil, err
	}
	rt, err := os.ReadFile(filepath.Join(filepath.Dir(harnessRoot), "runtime", "verif_runtime.go.tmpl"))
	if err != nil {
		return nil, nil, err
	}
	for d, name := range pkgDirs {
		ov[filepath.Join(d, "zz_verif_runtime.go")] = []byte(strings.ReplaceAll(string(rt), "PACKAGE", name))
	}
	shared, err := os.ReadFile(filepath.Join(filepath.Dir(harnessRoot), "runtime", "verifrt.go.tmpl"))
	if err != nil {
		return nil, nil, err
	}
	ov[filepath.Join(repoRoot, "x/go/verifrt/verifrt.go")] = shared
	return ov, src, nil
}

func main() {
	var (
		repo     = flag.String("repo", "/repo", "repository root")
		mod      = flag.String("mod", "", "module directory relative to repo (e.g. cesium)")
		pkg      = flag.String("pkg", "", "package pattern relative to module (e.g. ./internal/domain)")
		hroot    = flag.String("harness", "/verif/harness", "harness root")
		run      = flag.String("run", "", "harness function name")
		out      = flag.String("out", "", "result JSON path")
		unwind   = flag.Int("unwind", 64, "loop unwinding bound")
		budget   = flag.Int("budget", 20_000_000, "instruction budget per path")
		maxAlloc = flag.Int64("maxalloc", 64, "largest symbolic make() size the engine enumerates")
		timeout  = flag.Int("timeout", 20000, "per-query solver timeout in ms")
		solver   = flag.String("solver", "z3-new", "z3 | z3-new | cvc5")
		workers  = flag.Int("j", 4, "worker count")
		maxPaths = flag.Int("maxpaths", 0, "stop after this many paths (0 = unlimited)")
		models   = flag.Int("models", 8, "path models to record for conformance")
		maxViol  = flag.Int("maxviol", 2, "violations recorded per label")
		logSMT   = flag.String("logsmt", "", "prefix for SMT logs")
		vector   = flag.String("vector", "", "concrete mode: JSON array of input values")
		cross    = flag.Bool("cross", false, "cross-check unsat assertion queries on cvc5 and z3-new")
		known    = flag.String("known", "", "comma separated open known-finding ids")
		wall     = flag.Duration("wall", 0, "wall-clock limit for exploration")
		list     = flag.Bool("list", false, "list harness functions and exit")
		maxDepth = flag.Int("maxdepth", 300, "call depth bound (exceeding it is reported as unbounded recursion)")
		params   = flag.String("params", "", "comma separated name=int harness parameters (verifParam)")
	)
	cpuProf := flag.String("cpuprofile", "", "write a CPU profile of the engine (development aid)")
	flag.Parse()
	debug.SetGCPercent(400) // many short-lived values per path; memory is not the constraint
	if *cpuProf != "" {
		f, err := os.Create(*cpuProf)
		if err == nil {
			_ = pprof.StartCPUProfile(f)
			defer pprof.StopCPUProfile()
		}
	}
	paramMap := map[string]int{}
	if *params != "" {
		for _, kv := range strings.Split(*params, ",") {
			var k string
			var v int
			parts := strings.SplitN(kv, "=", 2)
			if len(parts) != 2 {
				fatal("bad param %s", kv)
			}
			k = parts[0]
			if _, err := fmt.Sscan(parts[1], &v); err != nil {
				fatal("bad param %s", kv)
			}
			paramMap[k] = v
		}
	}
	if *known != "" {
		knownOpenFindings = strings.Split(*known, ",")
	}
	os.Setenv("PATH", goBin+":"+os.Getenv("PATH"))
	os.Setenv("GOTOOLCHAIN", "local")
	os.Setenv("GOFLAGS", "-mod=mod")
	os.Setenv("GOPROXY", "off")

	ov, srcOf, err := collectOverlay(*hroot, *repo)
	if err != nil {
		fatal("overlay: %v", err)
	}
	fset := token.NewFileSet()
	cfg := &packages.Config{
		Mode:       packages.LoadAllSyntax,
		Dir:        filepath.Join(*repo, *mod),
		Fset:       fset,
		Overlay:    ov,
		BuildFlags: []string{"-tags=verif_harness"},
		Env:        os.Environ(),
	}
	t0 := time.Now()
	pkgs, err := packages.Load(cfg, *pkg)
	if err != nil {
		fatal("load: %v", err)
	}
	nerr := 0
	packages.Visit(pkgs, nil, func(p *packages.Package) {
		for _, e := range p.Errors {
			if nerr < 20 {
				fmt.Fprintf(os.Stderr, "load error: %v\n", e)
			}
			nerr++
		}
	})
	if nerr > 0 {
		fatal("%d package errors", nerr)
	}
	prog, spkgs := ssautil.AllPackages(pkgs, ssa.InstantiateGenerics)
	prog.Build()
	loadS := time.Since(t0).Seconds()
	if len(spkgs) == 0 || spkgs[0] == nil {
		fatal("no package")
	}
	main := spkgs[0]

	if *list {
		var names []string
		for name, m := range main.Members {
			if f, ok := m.(*ssa.Function); ok && strings.HasPrefix(name, "Verif") {
				_ = f
				names = append(names, name)
			}
		}
		sort.Strings(names)
		for _, n := range names {
			fmt.Println(n)
		}
		return
	}

	hf := main.Func(*run)
	if hf == nil {
		fatal("harness %s not found in %s", *run, main.Pkg.Path())
	}

	// directives in harness files: //verif:redirect <from> <to>, //verif:guard <struct> <field> <mutexfield>, //verif:assume <text>
	redirects := map[string]*ssa.Function{}
	var guards []guardSpec
	var assumptions []string
	serialFns := map[string]bool{}
	fnByName := map[string]*ssa.Function{}
	for f := range ssautil.AllFunctions(prog) {
		fnByName[f.String()] = f
	}
	packages.Visit(pkgs, nil, func(p *packages.Package) {
		for i, f := range p.Syntax {
			fname := p.CompiledGoFiles[i]
			if _, ok := srcOf[fname]; !ok {
				continue
			}
			for _, cg := range f.Comments {
				for _, cm := range cg.List {
					txt := strings.TrimSpace(strings.TrimPrefix(cm.Text, "//"))
					fields := strings.Fields(txt)
					if len(fields) == 0 {
						continue
					}
					switch fields[0] {
					case "verif:redirect":
						if len(fields) != 3 && len(fields) != 4 {
							fatal("bad redirect directive: %s", txt)
						}
						if len(fields) == 4 { // only=<Harness1,Harness2>
							only := strings.Split(strings.TrimPrefix(fields[3], "only="), ",")
							hit := false
							for _, o := range only {
								if o == *run {
									hit = true
								}
							}
							if !hit {
								continue
							}
						}
						to := fnByName[fields[2]]
						if to == nil {
							// allow package-local name
							if sp := prog.Package(p.Types); sp != nil {
								to = sp.Func(fields[2])
							}
						}
						if to == nil {
							fatal("redirect target %s not found", fields[2])
						}
						if _, ok := fnByName[fields[1]]; !ok {
							fatal("redirect source %s not found", fields[1])
						}
						redirects[fields[1]] = to
						assumptions = append(assumptions, "redirect "+fields[1]+" -> "+fields[2])
					case "verif:guard":
						if len(fields) != 4 && len(fields) != 5 {
							fatal("bad guard directive: %s", txt)
						}
						if len(fields) == 5 {
							hit := false
							for _, o := range strings.Split(strings.TrimPrefix(fields[4], "only="), ",") {
								if o == *run {
									hit = true
								}
							}
							if !hit {
								continue
							}
						}
						guards = append(guards, guardSpec{fields[1], fields[2], fields[3]})
					case "verif:serial":
						// //verif:serial <function>: documented as not safe to call concurrently with anything else;
						// locks taken inside it do not enter the lock-order graph
						if len(fields) < 2 {
							fatal("bad serial directive: %s", txt)
						}
						if _, ok := fnByName[fields[1]]; !ok {
							fatal("serial function %s not found", fields[1])
						}
						if !serialFns[fields[1]] {
							serialFns[fields[1]] = true
							assumptions = append(assumptions, "lock order: "+fields[1]+" is documented as not concurrent with other operations; its lock acquisitions are left out of the lock-order graph")
						}
					case "verif:assume":
						assumptions = append(assumptions, strings.TrimSpace(strings.TrimPrefix(txt, "verif:assume")))
					}
				}
			}
			_ = ast.Inspect
		}
	})

	// synthetic error type for engine errors
	errObj := types.NewTypeName(token.NoPos, nil, "gosmt.error", nil)
	errType := types.NewNamed(errObj, types.NewPointer(types.NewStruct(nil, nil)), nil)

	res := &Result{Harness: *run, PathsOther: map[string]int{}, Asserts: map[string]*AssertStat{}, Reach: map[string]int{},
		Functions: map[string]int{}, Known: map[string]int{}, Unsupported: map[string]int{}, CrossChecked: map[string]int{},
		Assumptions: assumptions}
	res.ExpectedLabels = expectedLabels(hf, map[*ssa.Function]bool{})

	opts := Options{Unwind: *unwind, InstrBudget: *budget, MaxAlloc: *maxAlloc, TimeoutMs: *timeout, Solver: *solver,
		Workers: *workers, MaxPaths: *maxPaths, Models: *models, MaxViol: *maxViol, LogSMT: *logSMT, CrossCheck: *cross, WallLimit: *wall, Params: paramMap, MaxDepth: *maxDepth}
	if *vector != "" {
		if err := json.Unmarshal([]byte(*vector), &opts.Concrete); err != nil {
			fatal("vector: %v", err)
		}
		if opts.Concrete == nil {
			opts.Concrete = []uint64{}
		}
	}
	sh := &Shared{serialFns: serialFns, prog: prog, redirects: redirects, errType: errType, harness: hf, opts: opts, res: res, guards: guards, sizes: types.SizesFor("gc", "amd64")}
	explore(sh)
	if opts.Concrete == nil {
		for _, cyc := range sh.lockCycles() {
			res.Violations = append(res.Violations, &Violation{Label: "lock-order", Kind: "lockorder", Msg: cyc})
		}
		for _, e := range sh.lockEdges {
			res.LockOrder = append(res.LockOrder, e.From+" -> "+e.To)
		}
		sort.Strings(res.LockOrder)
	}

	// status
	res.Status = "ok"
	if len(res.Violations) > 0 {
		res.Status = "violation"
	}
	if len(res.Unsupported) > 0 || len(res.Errors) > 0 || res.Truncated {
		res.Status = "broken"
	}
	for k := range res.PathsOther {
		if strings.HasPrefix(k, "unwind") || strings.HasPrefix(k, "budget") || strings.HasPrefix(k, "recursion") {
			res.Status = "broken"
		}
	}
	if opts.Concrete == nil {
		for _, l := range res.ExpectedLabels {
			if st, ok := res.Asserts[l]; !ok || st.Reached == 0 {
				if _, ok2 := res.Reach[l]; !ok2 {
					res.Errors = append(res.Errors, "vacuity: label never reached: "+l)
					res.Status = "broken"
				}
			}
		}
	}

	// hashes of source files that contributed executed functions
	hashes := map[string]string{}
	for name := range res.Functions {
		f := fnByName[name]
		if f == nil || f.Pos() == token.NoPos {
			continue
		}
		file := fset.Position(f.Pos()).Filename
		if !strings.HasPrefix(file, *repo) {
			continue
		}
		if _, ok := hashes[file]; ok {
			continue
		}
		var b []byte
		if ob, ok := ov[file]; ok {
			b = ob
		} else {
			b, _ = os.ReadFile(file)
		}
		hashes[file] = fmt.Sprintf("%x", sha256.Sum256(b))[:16]
	}
	outObj := map[string]any{"result": res, "load_s": loadS, "source_sha256": hashes, "options": map[string]any{
		"unwind": *unwind, "timeout_ms": *timeout, "solver": *solver, "workers": *workers, "maxalloc": *maxAlloc, "params": paramMap}}
	b, _ := json.MarshalIndent(outObj, "", " ")
	if *out != "" {
		os.MkdirAll(filepath.Dir(*out), 0o755)
		if err := os.WriteFile(*out, b, 0o644); err != nil {
			fatal("write: %v", err)
		}
	} else {
		os.Stdout.Write(b)
		fmt.Println()
	}
	fmt.Fprintf(os.Stderr, "gosmt %s: status=%s paths=%d (end %d, assume %d, panic %d) asserts=%d viol=%d unsupported=%d errors=%d instr=%d feasQ=%d assertQ=%d solver=%.1fs wall=%.1fs load=%.1fs\n",
		*run, res.Status, res.Paths, res.PathsEnd, res.PathsAssume, res.PathsPanic, len(res.Asserts), len(res.Violations), len(res.Unsupported), len(res.Errors),
		res.Instrs, res.FeasQueries, res.AssertQueries, res.SolverWallS, res.WallS, loadS)
	if os.Getenv("GOSMT_QSTATS") != "" {
		fmt.Fprintf(os.Stderr, "  QSTATS %v\n", res.ByTag)
	}
	for k, v := range res.Unsupported {
		fmt.Fprintf(os.Stderr, "  UNSUPPORTED x%d: %s\n", v, k)
	}
	for _, e := range res.Errors {
		fmt.Fprintf(os.Stderr, "  ERROR: %s\n", e)
	}
	for k, v := range res.PathsOther {
		fmt.Fprintf(os.Stderr, "  PATH-END x%d: %s\n", v, k)
	}
	for _, v := range res.Violations {
		fmt.Fprintf(os.Stderr, "  VIOLATION-CANDIDATE %s/%s %s vec=%v\n", v.Kind, v.Label, v.Msg, v.Vector)
	}
	pprof.StopCPUProfile()
	switch res.Status {
	case "violation":
		os.Exit(1)
	case "broken":
		os.Exit(3)
	}
}

// expectedLabels statically collects the constant labels of verifAssert/verifReach calls reachable from the
// harness through harness-file functions (used for the vacuity check).
func expectedLabels(f *ssa.Function, seen map[*ssa.Function]bool) []string {
	if seen[f] || len(f.Blocks) == 0 {
		return nil
	}
	seen[f] = true
	var out []string
	add := func(s string) {
		for _, o := range out {
			if o == s {
				return
			}
		}
		out = append(out, s)
	}
	for _, b := range f.Blocks {
		for _, in := range b.Instrs {
			var cc *ssa.CallCommon
			switch x := in.(type) {
			case *ssa.Call:
				cc = &x.Call
			case *ssa.Defer:
				cc = &x.Call
			case *ssa.MakeClosure:
				for _, l := range expectedLabels(x.Fn.(*ssa.Function), seen) {
					add(l)
				}
				continue
			default:
				continue
			}
			callee := cc.StaticCallee()
			if callee == nil {
				continue
			}
			switch callee.Name() {
			case "verifAssert", "verifAssertKnown", "verifReach":
				if k, ok := cc.Args[0].(*ssa.Const); ok {
					add(strings.Trim(k.Value.ExactString(), `"`))
				}
			default:
				if strings.HasPrefix(callee.Name(), "verifH") || strings.HasPrefix(callee.Name(), "Verif") {
					for _, l := range expectedLabels(callee, seen) {
						add(l)
					}
				}
			}
		}
	}
	return out
}
