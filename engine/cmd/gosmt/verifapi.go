package main

import (
	"fmt"
	"go/types"

	"golang.org/x/tools/go/ssa"
)

type verifFn func(c *Ctx, fn *ssa.Function, args []Value) Value

var verifAPI = map[string]verifFn{}

func label(v Value) string {
	if s, ok := v.(StringV); ok {
		if cs, ok := s.concrete(); ok {
			return cs
		}
	}
	return "?"
}

func init() {

	intFn := func(kind string, bitsN int) verifFn {
		return func(c *Ctx, fn *ssa.Function, a []Value) Value {
			return c.fresh(kind, bitsN, label(a[0]))
		}
	}
	verifAPI["verifInt64"] = intFn("int64", 64)
	verifAPI["verifUint64"] = intFn("uint64", 64)
	verifAPI["verifInt"] = intFn("int", 64)
	verifAPI["verifInt32"] = intFn("int32", 32)
	verifAPI["verifUint32"] = intFn("uint32", 32)
	verifAPI["verifInt16"] = intFn("int16", 16)
	verifAPI["verifUint16"] = intFn("uint16", 16)
	verifAPI["verifInt8"] = intFn("int8", 8)
	verifAPI["verifUint8"] = intFn("uint8", 8)
	verifAPI["verifBool"] = intFn("bool", 0)
	verifAPI["verifLen"] = func(c *Ctx, fn *ssa.Function, a []Value) Value {
		lo, hi := a[1].(*Term), a[2].(*Term)
		v := c.fresh("len", 64, label(a[0]))
		c.assumeChecked(c.tb.And(c.tb.Cmp(OpBvSle, lo, v), c.tb.Cmp(OpBvSle, v, hi)), "verifLen range")
		return c.tb.Const(c.concretize(v, "verifLen "+label(a[0])), 64)
	}
	verifAPI["verifConcretize"] = func(c *Ctx, fn *ssa.Function, a []Value) Value {
		t := a[0].(*Term)
		return c.tb.Const(c.concretize(t, "verifConcretize"), t.sort.bits)
	}
	verifAPI["verifString"] = func(c *Ctx, fn *ssa.Function, a []Value) Value {
		n := int(c.concretizeInt(a[1].(*Term), "verifString length"))
		b := make([]*Term, n)
		for i := range b {
			b[i] = c.fresh("byte", 8, fmt.Sprintf("%s[%d]", label(a[0]), i))
		}
		return StringV{b: b}
	}
	verifAPI["verifBytes"] = func(c *Ctx, fn *ssa.Function, a []Value) Value {
		n := int(c.concretizeInt(a[1].(*Term), "verifBytes length"))
		vals := make([]Value, n)
		for i := range vals {
			vals[i] = c.fresh("byte", 8, fmt.Sprintf("%s[%d]", label(a[0]), i))
		}
		return c.makeSliceFrom(types.Typ[types.Uint8], vals)
	}
	verifAPI["verifAssume"] = func(c *Ctx, fn *ssa.Function, a []Value) Value {
		c.assumeChecked(a[0].(*Term), "verifAssume")
		return nil
	}
	verifAPI["verifAssert"] = func(c *Ctx, fn *ssa.Function, a []Value) Value {
		c.checkAssert(label(a[0]), a[1].(*Term), "", nil)
		return nil
	}
	verifAPI["verifAssertKnown"] = func(c *Ctx, fn *ssa.Function, a []Value) Value {
		finding := label(a[2])
		if c.shared.opts.knownOpen(finding) {
			c.checkAssert(label(a[0]), a[1].(*Term), finding, a[3].(*Term))
		} else {
			c.checkAssert(label(a[0]), a[1].(*Term), "", nil)
		}
		return nil
	}
	verifAPI["verifReach"] = func(c *Ctx, fn *ssa.Function, a []Value) Value {
		c.shared.mu.Lock()
		c.shared.res.Reach[label(a[0])]++
		c.shared.mu.Unlock()
		return nil
	}
	verifAPI["verifObserve"] = func(c *Ctx, fn *ssa.Function, a []Value) Value {
		t := a[1].(*Term)
		c.observes = append(c.observes, obsRec{label: label(a[0]), t: t})
		return nil
	}
	verifAPI["verifObserveBool"] = func(c *Ctx, fn *ssa.Function, a []Value) Value {
		t := a[1].(*Term)
		c.observes = append(c.observes, obsRec{label: label(a[0]), t: c.tb.BoolToBV(t, 1)})
		return nil
	}
	verifAPI["verifObserveStr"] = func(c *Ctx, fn *ssa.Function, a []Value) Value {
		s := a[1].(StringV)
		c.observes = append(c.observes, obsRec{label: label(a[0]), s: &s})
		return nil
	}
	verifAPI["verifUnwind"] = func(c *Ctx, fn *ssa.Function, a []Value) Value {
		c.unwind = int(c.concretizeInt(a[0].(*Term), "unwind"))
		return nil
	}
	verifAPI["verifMapOrder"] = func(c *Ctx, fn *ssa.Function, a []Value) Value {
		if iv, ok := a[0].(IfaceV); ok {
			if m, ok := iv.v.(*MapV); ok && m != nil {
				m.ordered = true
			}
		}
		return nil
	}
	// verifPanics(f) reports whether f panics (Go-level panic of the code under test).
	verifAPI["verifPanics"] = func(c *Ctx, fn *ssa.Function, a []Value) (res Value) {
		saveCur, saveDepth := c.cur, c.depth
		res = c.tb.ff
		func() {
			defer func() {
				if r := recover(); r != nil {
					if gp, ok := r.(*goPanicSig); ok {
						c.cur, c.depth = saveCur, saveDepth
						c.extra["lastPanic"] = gp.msg
						res = c.tb.tt
						return
					}
					panic(r)
				}
			}()
			c.callValue(a[0], nil, nil)
		}()
		return res
	}
	verifAPI["verifAllowHeldLocks"] = func(c *Ctx, fn *ssa.Function, a []Value) Value {
		c.extra["allowHeldLocks"] = true
		return nil
	}
	// verifLockMode(&mu) -> 0 unlocked, 1 read-locked, 2 write-locked (engine only; natively returns -1)
	verifAPI["verifLockMode"] = func(c *Ctx, fn *ssa.Function, a []Value) Value {
		iv := a[0].(IfaceV)
		p := iv.v.(PtrV)
		l := c.lockOf(p)
		switch {
		case l.writer:
			return c.intConst(2)
		case l.readers > 0:
			return c.intConst(1)
		}
		return c.intConst(0)
	}
	verifAPI["verifParam"] = func(c *Ctx, fn *ssa.Function, a []Value) Value {
		if v, ok := c.shared.opts.Params[label(a[0])]; ok {
			return c.intConst(v)
		}
		return a[1]
	}
	// verifMaxAlloc(f) runs f and returns the byte size of the largest single make() it performed (natively: the
	// TotalAlloc delta, an upper bound of it).
	verifAPI["verifMaxAlloc"] = func(c *Ctx, fn *ssa.Function, a []Value) Value {
		savedT, savedM := c.allocTracking, c.allocMaxTerm
		c.allocTracking, c.allocMaxTerm = true, nil
		c.callValue(a[0], nil, nil)
		r := c.allocMaxTerm
		c.allocTracking, c.allocMaxTerm = savedT, savedM
		if r == nil {
			return c.intConst(0)
		}
		return r
	}
	verifAPI["verifSymbolic"] = func(c *Ctx, fn *ssa.Function, a []Value) Value {
		return c.tb.Bool(c.concreteVec == nil)
	}
}

func (o Options) knownOpen(id string) bool {
	for _, k := range knownOpenFindings {
		if k == id {
			return true
		}
	}
	return false
}

var knownOpenFindings []string
