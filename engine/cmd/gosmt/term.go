package main

import (
	"fmt"
	"math/bits"
	"sort"
	"strings"
)

// Sort of an SMT term: bits==0 is Bool, otherwise (_ BitVec bits).
type Sort struct{ bits int }

var BoolSort = Sort{0}

func BV(n int) Sort { return Sort{n} }

func (s Sort) String() string {
	if s.bits == 0 {
		return "Bool"
	}
	return fmt.Sprintf("(_ BitVec %d)", s.bits)
}

type Op uint8

const (
	OpConst Op = iota
	OpVar
	OpNot
	OpAnd
	OpOr
	OpEq
	OpIte
	OpBvAdd
	OpBvSub
	OpBvMul
	OpBvUDiv
	OpBvSDiv
	OpBvURem
	OpBvSRem
	OpBvAnd
	OpBvOr
	OpBvXor
	OpBvNot
	OpBvNeg
	OpBvShl
	OpBvLshr
	OpBvAshr
	OpBvUlt
	OpBvUle
	OpBvSlt
	OpBvSle
	OpExtract // p1=hi p2=lo
	OpConcat
	OpZext // p1 = extra bits
	OpSext
)

var opNames = map[Op]string{
	OpNot: "not", OpAnd: "and", OpOr: "or", OpEq: "=", OpIte: "ite",
	OpBvAdd: "bvadd", OpBvSub: "bvsub", OpBvMul: "bvmul", OpBvUDiv: "bvudiv", OpBvSDiv: "bvsdiv",
	OpBvURem: "bvurem", OpBvSRem: "bvsrem", OpBvAnd: "bvand", OpBvOr: "bvor", OpBvXor: "bvxor",
	OpBvNot: "bvnot", OpBvNeg: "bvneg", OpBvShl: "bvshl", OpBvLshr: "bvlshr", OpBvAshr: "bvashr",
	OpBvUlt: "bvult", OpBvUle: "bvule", OpBvSlt: "bvslt", OpBvSle: "bvsle", OpConcat: "concat",
}

type Term struct {
	op     Op
	sort   Sort
	args   []*Term
	val    uint64
	p1, p2 int
	name   string
	id     int
}

func (t *Term) IsConst() bool { return t.op == OpConst }
func (t *Term) IsTrue() bool  { return t.op == OpConst && t.sort.bits == 0 && t.val == 1 }
func (t *Term) IsFalse() bool { return t.op == OpConst && t.sort.bits == 0 && t.val == 0 }

// TermTable hash-conses terms (one per worker).
type TermTable struct {
	tab    map[string]*Term
	nextID int
	tt, ff *Term
}

func NewTermTable() *TermTable {
	tb := &TermTable{tab: map[string]*Term{}}
	tb.tt = tb.mk(&Term{op: OpConst, sort: BoolSort, val: 1})
	tb.ff = tb.mk(&Term{op: OpConst, sort: BoolSort, val: 0})
	return tb
}

func (tb *TermTable) key(t *Term) string {
	var sb strings.Builder
	fmt.Fprintf(&sb, "%d:%d:%d:%d:%d:%s", t.op, t.sort.bits, t.val, t.p1, t.p2, t.name)
	for _, a := range t.args {
		fmt.Fprintf(&sb, ",%d", a.id)
	}
	return sb.String()
}

func (tb *TermTable) mk(t *Term) *Term {
	k := tb.key(t)
	if e, ok := tb.tab[k]; ok {
		return e
	}
	tb.nextID++
	t.id = tb.nextID
	tb.tab[k] = t
	return t
}

func mask(bitsN int) uint64 {
	if bitsN >= 64 {
		return ^uint64(0)
	}
	return (uint64(1) << uint(bitsN)) - 1
}

func signExt(v uint64, bitsN int) int64 {
	if bitsN >= 64 {
		return int64(v)
	}
	sh := uint(64 - bitsN)
	return int64(v<<sh) >> sh
}

func (tb *TermTable) Bool(b bool) *Term {
	if b {
		return tb.tt
	}
	return tb.ff
}

func (tb *TermTable) Const(v uint64, n int) *Term {
	if n > 64 {
		panic("const wider than 64 bits")
	}
	return tb.mk(&Term{op: OpConst, sort: BV(n), val: v & mask(n)})
}

func (tb *TermTable) Var(name string, s Sort) *Term {
	return tb.mk(&Term{op: OpVar, sort: s, name: name})
}

func (tb *TermTable) Not(a *Term) *Term {
	if a.IsConst() {
		return tb.Bool(a.val == 0)
	}
	if a.op == OpNot {
		return a.args[0]
	}
	return tb.mk(&Term{op: OpNot, sort: BoolSort, args: []*Term{a}})
}

func (tb *TermTable) And(xs ...*Term) *Term {
	var out []*Term
	for _, x := range xs {
		if x.IsFalse() {
			return tb.ff
		}
		if x.IsTrue() {
			continue
		}
		dup := false
		for _, o := range out {
			if o == x {
				dup = true
			}
			if (o.op == OpNot && o.args[0] == x) || (x.op == OpNot && x.args[0] == o) {
				return tb.ff
			}
		}
		if !dup {
			out = append(out, x)
		}
	}
	if len(out) == 0 {
		return tb.tt
	}
	if len(out) == 1 {
		return out[0]
	}
	return tb.mk(&Term{op: OpAnd, sort: BoolSort, args: out})
}

func (tb *TermTable) Or(xs ...*Term) *Term {
	var out []*Term
	for _, x := range xs {
		if x.IsTrue() {
			return tb.tt
		}
		if x.IsFalse() {
			continue
		}
		dup := false
		for _, o := range out {
			if o == x {
				dup = true
			}
			if (o.op == OpNot && o.args[0] == x) || (x.op == OpNot && x.args[0] == o) {
				return tb.tt
			}
		}
		if !dup {
			out = append(out, x)
		}
	}
	if len(out) == 0 {
		return tb.ff
	}
	if len(out) == 1 {
		return out[0]
	}
	return tb.mk(&Term{op: OpOr, sort: BoolSort, args: out})
}

func (tb *TermTable) Implies(a, b *Term) *Term { return tb.Or(tb.Not(a), b) }

func (tb *TermTable) Eq(a, b *Term) *Term {
	if a.sort != b.sort {
		panic(fmt.Sprintf("Eq sort mismatch %v %v", a.sort, b.sort))
	}
	if a == b {
		return tb.tt
	}
	if a.IsConst() && b.IsConst() {
		return tb.Bool(a.val == b.val)
	}
	if a.sort.bits == 0 {
		if a.IsConst() {
			a, b = b, a
		}
		if b.IsTrue() {
			return a
		}
		if b.IsFalse() {
			return tb.Not(a)
		}
	}
	// 0 = x - y  is  x = y
	if a.IsConst() && a.val == 0 && b.op == OpBvSub {
		return tb.Eq(b.args[0], b.args[1])
	}
	if b.IsConst() && b.val == 0 && a.op == OpBvSub {
		return tb.Eq(a.args[0], a.args[1])
	}
	if a.id > b.id {
		a, b = b, a
	}
	return tb.mk(&Term{op: OpEq, sort: BoolSort, args: []*Term{a, b}})
}

func (tb *TermTable) Ite(c, a, b *Term) *Term {
	if a.sort != b.sort {
		panic("Ite sort mismatch")
	}
	if c.IsTrue() {
		return a
	}
	if c.IsFalse() {
		return b
	}
	if a == b {
		return a
	}
	if a.sort.bits == 0 {
		if a.IsTrue() && b.IsFalse() {
			return c
		}
		if a.IsFalse() && b.IsTrue() {
			return tb.Not(c)
		}
	}
	return tb.mk(&Term{op: OpIte, sort: a.sort, args: []*Term{c, a, b}})
}

// BoolToBV converts Bool to a 1/0 bit-vector of width n.
func (tb *TermTable) BoolToBV(c *Term, n int) *Term {
	return tb.Ite(c, tb.Const(1, n), tb.Const(0, n))
}

func foldBin(op Op, a, b uint64, n int) (uint64, bool) {
	m := mask(n)
	a &= m
	b &= m
	switch op {
	case OpBvAdd:
		return (a + b) & m, true
	case OpBvSub:
		return (a - b) & m, true
	case OpBvMul:
		return (a * b) & m, true
	case OpBvUDiv:
		if b == 0 {
			return m, true
		}
		return a / b, true
	case OpBvURem:
		if b == 0 {
			return a, true
		}
		return a % b, true
	case OpBvSDiv:
		sa, sb := signExt(a, n), signExt(b, n)
		if sb == 0 {
			if sa < 0 {
				return 1, true
			}
			return m, true
		}
		if sb == -1 {
			return uint64(-sa) & m, true
		}
		return uint64(sa/sb) & m, true
	case OpBvSRem:
		sa, sb := signExt(a, n), signExt(b, n)
		if sb == 0 {
			return a, true
		}
		if sb == -1 {
			return 0, true
		}
		return uint64(sa%sb) & m, true
	case OpBvAnd:
		return a & b, true
	case OpBvOr:
		return a | b, true
	case OpBvXor:
		return a ^ b, true
	case OpBvShl:
		if b >= uint64(n) {
			return 0, true
		}
		return (a << b) & m, true
	case OpBvLshr:
		if b >= uint64(n) {
			return 0, true
		}
		return a >> b, true
	case OpBvAshr:
		sa := signExt(a, n)
		if b >= uint64(n) {
			b = uint64(n - 1)
			if n == 64 {
				b = 63
			}
		}
		return uint64(sa>>b) & m, true
	}
	return 0, false
}

func (tb *TermTable) Bin(op Op, a, b *Term) *Term {
	if a.sort != b.sort || a.sort.bits == 0 {
		panic(fmt.Sprintf("Bin %s sort mismatch %v %v", opNames[op], a.sort, b.sort))
	}
	n := a.sort.bits
	if a.IsConst() && b.IsConst() {
		if v, ok := foldBin(op, a.val, b.val, n); ok {
			return tb.Const(v, n)
		}
	}
	switch op {
	case OpBvAdd, OpBvOr, OpBvXor:
		if a.IsConst() && a.val == 0 {
			return b
		}
		if b.IsConst() && b.val == 0 {
			return a
		}
	case OpBvSub, OpBvShl, OpBvLshr, OpBvAshr:
		if b.IsConst() && b.val == 0 {
			return a
		}
		if op == OpBvSub && a == b {
			return tb.Const(0, n)
		}
	case OpBvMul:
		if a.IsConst() && a.val == 1 {
			return b
		}
		if b.IsConst() && b.val == 1 {
			return a
		}
		if (a.IsConst() && a.val == 0) || (b.IsConst() && b.val == 0) {
			return tb.Const(0, n)
		}
	case OpBvAnd:
		if (a.IsConst() && a.val == 0) || (b.IsConst() && b.val == 0) {
			return tb.Const(0, n)
		}
		if a.IsConst() && a.val == mask(n) {
			return b
		}
		if b.IsConst() && b.val == mask(n) {
			return a
		}
		if a == b {
			return a
		}
	}
	if op == OpBvOr {
		if r := tb.orByPieces(a, b); r != nil {
			return r
		}
	}
	if op == OpBvShl && b.IsConst() && int(b.val) < n && a.op != OpVar {
		// x << k = concat(extract(x, n-1-k, 0), 0_k): keeps byte assembly in concat form
		if ps, ok := tb.pieces(a, 0); ok && len(ps) > 1 {
			k := int(b.val)
			return tb.Concat(tb.Extract(a, n-1-k, 0), tb.Const(0, k))
		}
	}
	if (op == OpBvAdd || op == OpBvMul || op == OpBvAnd || op == OpBvOr || op == OpBvXor) && a.id > b.id {
		a, b = b, a
	}
	return tb.mk(&Term{op: op, sort: a.sort, args: []*Term{a, b}})
}

func (tb *TermTable) Cmp(op Op, a, b *Term) *Term {
	if a.sort != b.sort || a.sort.bits == 0 {
		panic(fmt.Sprintf("Cmp sort mismatch %v %v", a.sort, b.sort))
	}
	n := a.sort.bits
	if a.IsConst() && b.IsConst() {
		switch op {
		case OpBvUlt:
			return tb.Bool(a.val < b.val)
		case OpBvUle:
			return tb.Bool(a.val <= b.val)
		case OpBvSlt:
			return tb.Bool(signExt(a.val, n) < signExt(b.val, n))
		case OpBvSle:
			return tb.Bool(signExt(a.val, n) <= signExt(b.val, n))
		}
	}
	if a == b {
		return tb.Bool(op == OpBvUle || op == OpBvSle)
	}
	// comparisons against the extreme values of the domain
	smax, smin := mask(n)>>1, uint64(1)<<uint(n-1)
	switch op {
	case OpBvSlt:
		if (a.IsConst() && a.val == smax) || (b.IsConst() && b.val == smin) {
			return tb.ff
		}
	case OpBvSle:
		if (b.IsConst() && b.val == smax) || (a.IsConst() && a.val == smin) {
			return tb.tt
		}
	case OpBvUlt:
		if (a.IsConst() && a.val == mask(n)) || (b.IsConst() && b.val == 0) {
			return tb.ff
		}
	case OpBvUle:
		if (b.IsConst() && b.val == mask(n)) || (a.IsConst() && a.val == 0) {
			return tb.tt
		}
	}
	return tb.mk(&Term{op: op, sort: BoolSort, args: []*Term{a, b}})
}

func (tb *TermTable) BvNot(a *Term) *Term {
	if a.IsConst() {
		return tb.Const(^a.val, a.sort.bits)
	}
	return tb.mk(&Term{op: OpBvNot, sort: a.sort, args: []*Term{a}})
}

func (tb *TermTable) BvNeg(a *Term) *Term {
	if a.IsConst() {
		return tb.Const(-a.val, a.sort.bits)
	}
	return tb.mk(&Term{op: OpBvNeg, sort: a.sort, args: []*Term{a}})
}

func (tb *TermTable) Extract(a *Term, hi, lo int) *Term {
	w := hi - lo + 1
	if lo == 0 && w == a.sort.bits {
		return a
	}
	if a.IsConst() {
		return tb.Const(a.val>>uint(lo), w)
	}
	if a.op == OpConcat {
		// concat(hiPart, loPart)
		lw := a.args[1].sort.bits
		if hi < lw {
			return tb.Extract(a.args[1], hi, lo)
		}
		if lo >= lw {
			return tb.Extract(a.args[0], hi-lw, lo-lw)
		}
	}
	if a.op == OpZext {
		iw := a.args[0].sort.bits
		if hi < iw {
			return tb.Extract(a.args[0], hi, lo)
		}
		if lo >= iw {
			return tb.Const(0, w)
		}
	}
	if a.op == OpExtract {
		return tb.Extract(a.args[0], hi+a.p2, lo+a.p2)
	}
	if a.op == OpConcat {
		// straddles both halves
		lw := a.args[1].sort.bits
		return tb.Concat(tb.Extract(a.args[0], hi-lw, 0), tb.Extract(a.args[1], lw-1, lo))
	}
	if a.op == OpZext {
		iw := a.args[0].sort.bits // lo < iw <= hi
		return tb.Zext(tb.Extract(a.args[0], iw-1, lo), w)
	}
	if (a.op == OpBvLshr || a.op == OpBvShl) && a.args[1].IsConst() {
		k := int(a.args[1].val)
		if a.op == OpBvLshr && hi+k < a.sort.bits {
			return tb.Extract(a.args[0], hi+k, lo+k)
		}
		if a.op == OpBvShl && lo >= k {
			return tb.Extract(a.args[0], hi-k, lo-k)
		}
	}
	if a.op == OpBvOr || a.op == OpBvAnd || a.op == OpBvXor {
		// bitwise operators commute with extraction; worthwhile when a side collapses
		x, y := tb.Extract(a.args[0], hi, lo), tb.Extract(a.args[1], hi, lo)
		if x.IsConst() || y.IsConst() {
			return tb.Bin(a.op, x, y)
		}
	}
	return tb.mk(&Term{op: OpExtract, sort: BV(w), args: []*Term{a}, p1: hi, p2: lo})
}

func (tb *TermTable) Concat(hi, lo *Term) *Term {
	w := hi.sort.bits + lo.sort.bits
	if hi.IsConst() && lo.IsConst() && w <= 64 {
		return tb.Const(hi.val<<uint(lo.sort.bits)|lo.val, w)
	}
	// concat(extract(x,h,m+1), extract(x,m,l)) = extract(x,h,l)
	if hi.op == OpExtract && lo.op == OpExtract && hi.args[0] == lo.args[0] && hi.p2 == lo.p1+1 {
		return tb.Extract(hi.args[0], hi.p1, lo.p2)
	}
	if w > 64 {
		panic("concat wider than 64 bits")
	}
	if hi.IsConst() && hi.val == 0 {
		return tb.Zext(lo, w)
	}
	// concat(extract(x,h,m+1), concat(extract(x,m,l), rest)) = concat(extract(x,h,l), rest)
	if hi.op == OpExtract && lo.op == OpConcat && lo.args[0].op == OpExtract &&
		lo.args[0].args[0] == hi.args[0] && hi.p2 == lo.args[0].p1+1 {
		return tb.Concat(tb.Extract(hi.args[0], hi.p1, lo.args[0].p2), lo.args[1])
	}
	// a whole variable on top of an extract of itself cannot happen; a bare x on top of nothing is x
	return tb.mk(&Term{op: OpConcat, sort: BV(w), args: []*Term{hi, lo}})
}

func (tb *TermTable) Zext(a *Term, to int) *Term {
	n := a.sort.bits
	if to == n {
		return a
	}
	if to < n {
		return tb.Extract(a, to-1, 0)
	}
	if a.IsConst() {
		return tb.Const(a.val, to)
	}
	return tb.mk(&Term{op: OpZext, sort: BV(to), args: []*Term{a}, p1: to - n})
}

func (tb *TermTable) Sext(a *Term, to int) *Term {
	n := a.sort.bits
	if to == n {
		return a
	}
	if to < n {
		return tb.Extract(a, to-1, 0)
	}
	if a.IsConst() {
		return tb.Const(uint64(signExt(a.val, n)), to)
	}
	return tb.mk(&Term{op: OpSext, sort: BV(to), args: []*Term{a}, p1: to - n})
}

func constLit(t *Term) string {
	if t.sort.bits == 0 {
		if t.val == 1 {
			return "true"
		}
		return "false"
	}
	if t.sort.bits%4 == 0 {
		return fmt.Sprintf("#x%0*x", t.sort.bits/4, t.val)
	}
	return fmt.Sprintf("#b%0*b", t.sort.bits, t.val)
}

// ref returns how a term is referred to inside another term's definition.
func (t *Term) ref() string {
	switch t.op {
	case OpConst:
		return constLit(t)
	case OpVar:
		return t.name
	}
	return fmt.Sprintf("t%d", t.id)
}

// body prints the term one level deep (children by reference).
func (t *Term) body() string {
	switch t.op {
	case OpConst, OpVar:
		return t.ref()
	case OpExtract:
		return fmt.Sprintf("((_ extract %d %d) %s)", t.p1, t.p2, t.args[0].ref())
	case OpZext:
		return fmt.Sprintf("((_ zero_extend %d) %s)", t.p1, t.args[0].ref())
	case OpSext:
		return fmt.Sprintf("((_ sign_extend %d) %s)", t.p1, t.args[0].ref())
	}
	var sb strings.Builder
	sb.WriteByte('(')
	sb.WriteString(opNames[t.op])
	for _, a := range t.args {
		sb.WriteByte(' ')
		sb.WriteString(a.ref())
	}
	sb.WriteByte(')')
	return sb.String()
}

// Eval evaluates a term under a model (var name -> value).
func (t *Term) Eval(m map[string]uint64, memo map[*Term]uint64) uint64 {
	if v, ok := memo[t]; ok {
		return v
	}
	var r uint64
	n := t.sort.bits
	switch t.op {
	case OpConst:
		r = t.val
	case OpVar:
		r = m[t.name] & mask(max(n, 1))
	case OpNot:
		r = 1 - t.args[0].Eval(m, memo)
	case OpAnd:
		r = 1
		for _, a := range t.args {
			if a.Eval(m, memo) == 0 {
				r = 0
			}
		}
	case OpOr:
		r = 0
		for _, a := range t.args {
			if a.Eval(m, memo) == 1 {
				r = 1
			}
		}
	case OpEq:
		if t.args[0].Eval(m, memo) == t.args[1].Eval(m, memo) {
			r = 1
		}
	case OpIte:
		if t.args[0].Eval(m, memo) == 1 {
			r = t.args[1].Eval(m, memo)
		} else {
			r = t.args[2].Eval(m, memo)
		}
	case OpBvNot:
		r = ^t.args[0].Eval(m, memo) & mask(n)
	case OpBvNeg:
		r = -t.args[0].Eval(m, memo) & mask(n)
	case OpBvUlt, OpBvUle, OpBvSlt, OpBvSle:
		a, b := t.args[0].Eval(m, memo), t.args[1].Eval(m, memo)
		an := t.args[0].sort.bits
		var ok bool
		switch t.op {
		case OpBvUlt:
			ok = a < b
		case OpBvUle:
			ok = a <= b
		case OpBvSlt:
			ok = signExt(a, an) < signExt(b, an)
		case OpBvSle:
			ok = signExt(a, an) <= signExt(b, an)
		}
		if ok {
			r = 1
		}
	case OpExtract:
		r = (t.args[0].Eval(m, memo) >> uint(t.p2)) & mask(n)
	case OpConcat:
		r = t.args[0].Eval(m, memo)<<uint(t.args[1].sort.bits) | t.args[1].Eval(m, memo)
	case OpZext:
		r = t.args[0].Eval(m, memo)
	case OpSext:
		r = uint64(signExt(t.args[0].Eval(m, memo), t.args[0].sort.bits)) & mask(n)
	default:
		a, b := t.args[0].Eval(m, memo), t.args[1].Eval(m, memo)
		v, ok := foldBin(t.op, a, b, n)
		if !ok {
			panic("eval: unknown op")
		}
		r = v
	}
	memo[t] = r
	return r
}

var _ = bits.Len64

// Deep prints the term fully expanded (debugging aid).
func (t *Term) Deep(depth int) string {
	if t.op == OpConst || t.op == OpVar || depth == 0 {
		return t.ref()
	}
	var sb strings.Builder
	sb.WriteByte('(')
	switch t.op {
	case OpExtract:
		fmt.Fprintf(&sb, "extract%d_%d", t.p1, t.p2)
	case OpZext:
		sb.WriteString("zext")
	case OpSext:
		sb.WriteString("sext")
	default:
		sb.WriteString(opNames[t.op])
	}
	for _, a := range t.args {
		sb.WriteByte(' ')
		sb.WriteString(a.Deep(depth - 1))
	}
	sb.WriteByte(')')
	return sb.String()
}

// piece is a bit range [lo, lo+w) of a word; t == nil means zero bits.
type piece struct {
	lo, w int
	t     *Term
}

// pieces decomposes a word built from zero extension, constant shifts, concatenation and constants into
// disjoint bit ranges (ascending). ok is false when t has no such structure (it is then one opaque piece).
func (tb *TermTable) pieces(t *Term, depth int) ([]piece, bool) {
	n := t.sort.bits
	if depth > 12 {
		return nil, false
	}
	switch t.op {
	case OpConst:
		if t.val == 0 {
			return []piece{{0, n, nil}}, true
		}
		return []piece{{0, n, t}}, true
	case OpZext:
		iw := t.args[0].sort.bits
		in, ok := tb.pieces(t.args[0], depth+1)
		if !ok {
			in = []piece{{0, iw, t.args[0]}}
		}
		return append(append([]piece{}, in...), piece{iw, n - iw, nil}), true
	case OpConcat:
		lw := t.args[1].sort.bits
		lo, ok1 := tb.pieces(t.args[1], depth+1)
		if !ok1 {
			lo = []piece{{0, lw, t.args[1]}}
		}
		hi, ok2 := tb.pieces(t.args[0], depth+1)
		if !ok2 {
			hi = []piece{{0, n - lw, t.args[0]}}
		}
		out := append([]piece{}, lo...)
		for _, p := range hi {
			out = append(out, piece{p.lo + lw, p.w, p.t})
		}
		return out, true
	case OpBvShl:
		if !t.args[1].IsConst() || int(t.args[1].val) >= n {
			return nil, false
		}
		k := int(t.args[1].val)
		in, ok := tb.pieces(t.args[0], depth+1)
		if !ok {
			in = []piece{{0, n, t.args[0]}}
		}
		out := []piece{{0, k, nil}}
		for _, p := range in {
			if p.lo+k >= n {
				break
			}
			w := p.w
			q := p.t
			if p.lo+k+w > n {
				w = n - p.lo - k
				if q != nil {
					q = tb.Extract(q, w-1, 0)
				}
			}
			out = append(out, piece{p.lo + k, w, q})
		}
		return out, true
	}
	return nil, false
}

// orByPieces rewrites a | b as a concatenation when both sides are piecewise and never both non-zero on
// the same bit (the shape of binary.LittleEndian.Uint64 and friends); nil when it does not apply.
func (tb *TermTable) orByPieces(a, b *Term) *Term {
	n := a.sort.bits
	pa, oka := tb.pieces(a, 0)
	pb, okb := tb.pieces(b, 0)
	if !oka || !okb || (len(pa) < 2 && len(pb) < 2) {
		return nil
	}
	// split at the union of boundaries
	cuts := map[int]bool{0: true, n: true}
	for _, p := range pa {
		cuts[p.lo] = true
	}
	for _, p := range pb {
		cuts[p.lo] = true
	}
	var bs []int
	for c := range cuts {
		bs = append(bs, c)
	}
	sort.Ints(bs)
	at := func(ps []piece, lo, hi int) (*Term, bool) { // bits [lo,hi) of the word; (nil,true) = zero
		for _, p := range ps {
			if lo >= p.lo && hi <= p.lo+p.w {
				if p.t == nil {
					return nil, true
				}
				return tb.Extract(p.t, hi-1-p.lo, lo-p.lo), true
			}
		}
		return nil, false
	}
	var res *Term
	for i := 0; i+1 < len(bs); i++ {
		lo, hi := bs[i], bs[i+1]
		x, ok1 := at(pa, lo, hi)
		y, ok2 := at(pb, lo, hi)
		if !ok1 || !ok2 {
			return nil
		}
		var seg *Term
		switch {
		case x == nil && y == nil:
			seg = tb.Const(0, hi-lo)
		case x == nil:
			seg = y
		case y == nil:
			seg = x
		case x.IsConst() && y.IsConst():
			seg = tb.Const(x.val|y.val, hi-lo)
		case x == y:
			seg = x
		default:
			return nil
		}
		if res == nil {
			res = seg
		} else {
			res = tb.Concat(seg, res)
		}
	}
	return res
}
