package main

import (
	"fmt"
	"go/types"
	"os"
	"runtime/debug"
	"sort"
	"strings"
	"sync"
	"time"

	"golang.org/x/tools/go/ssa"
)

// Decision is one recorded choice on a path.
type Decision struct {
	N   int    `json:"n"`             // chosen alternative
	Val uint64 `json:"v,omitempty"`   // concretisation value
	K   byte   `json:"k,omitempty"`   // 0 = choose, 1 = concretise
}

// Shared is the read-only (or synchronised) state shared by all workers of one harness run.
type Shared struct {
	prog      *ssa.Program
	fnInfos   sync.Map
	harnessFns sync.Map
	sizes     types.Sizes
	redirects map[string]*ssa.Function
	errType   types.Type
	harness   *ssa.Function
	opts      Options
	guards    []guardSpec

	mu       sync.Mutex
	queue    []queued
	active   int
	cond     *sync.Cond
	res      *Result
	stop     bool
	deadline time.Time
	lockEdges map[string]lockEdge
	writeGates map[string]map[string]bool
	serialFns  map[string]bool
}

type Options struct {
	Unwind      int
	InstrBudget int
	MaxAlloc    int64
	TimeoutMs   int
	Solver      string
	Workers     int
	MaxPaths    int
	Models      int // number of path models to record for conformance
	MaxViol     int // max recorded violations per label
	LogSMT      string
	Concrete    []uint64 // concrete vector mode
	CrossCheck  bool
	WallLimit   time.Duration
	Params      map[string]int
	MaxDepth    int
}

type InputVar struct {
	Name  string `json:"name"`
	Kind  string `json:"kind"`
	Bits  int    `json:"bits"`
	Label string `json:"label,omitempty"`
}

type Observation struct {
	Label string `json:"label"`
	Value uint64 `json:"value"`
	Str   string `json:"str,omitempty"`
	IsStr bool   `json:"is_str,omitempty"`
}

type PathModel struct {
	Vector  []uint64      `json:"vector"`
	Inputs  []InputVar    `json:"inputs"`
	Outcome string        `json:"outcome"` // end | panic
	Panic   string        `json:"panic,omitempty"`
	Observe []Observation `json:"observe"`
	Asserts []string      `json:"asserts"` // labels checked on this path (all expected to hold unless listed in Failed)
	Failed  []string      `json:"failed,omitempty"`
}

type Violation struct {
	Label   string     `json:"label"`
	Kind    string     `json:"kind"` // assert | panic | lock | guard | alloc
	Msg     string     `json:"msg,omitempty"`
	Vector  []uint64   `json:"vector"`
	Inputs  []InputVar `json:"inputs"`
	Known   string     `json:"known,omitempty"`
	Trace   []Decision `json:"trace,omitempty"`
	Script  string     `json:"-"`
}

type AssertStat struct {
	Reached int `json:"reached"`
	Unsat   int `json:"unsat"`
	Sat     int `json:"sat"`
	Unknown int `json:"unknown"`
	Trivial int `json:"trivial"`
}

type Result struct {
	Harness       string                 `json:"harness"`
	LockOrder     []string               `json:"lock_order,omitempty"`
	Paths         int                    `json:"paths"`
	PathsEnd      int                    `json:"paths_end"`
	PathsAssume   int                    `json:"paths_assume"`
	PathsPanic    int                    `json:"paths_panic"`
	PathsOther    map[string]int         `json:"paths_other"`
	Instrs        int64                  `json:"instrs"`
	MaxUnwind     int                    `json:"max_unwind_seen"`
	Unwind        int                    `json:"unwind"`
	FeasQueries   int                    `json:"feasibility_queries"`
	AssertQueries int                    `json:"assert_queries"`
	SolverSat     int                    `json:"solver_sat"`
	ByTag         map[string]float64     `json:"queries_by_site,omitempty"`
	SolverUnsat   int                    `json:"solver_unsat"`
	SolverUnknown int                    `json:"solver_unknown"`
	SolverWallS   float64                `json:"solver_wall_s"`
	WallS         float64                `json:"wall_s"`
	Asserts       map[string]*AssertStat `json:"asserts"`
	Reach         map[string]int         `json:"reach"`
	Functions     map[string]int         `json:"functions"`
	Violations    []*Violation           `json:"violations"`
	Known         map[string]int         `json:"known_findings"`
	Models        []*PathModel           `json:"models"`
	Errors        []string               `json:"errors"`
	Unsupported   map[string]int         `json:"unsupported"`
	Assumptions   []string               `json:"assumptions"`
	ExpectedLabels []string              `json:"expected_labels"`
	CrossChecked  map[string]int         `json:"cross_checked"`
	Status        string                 `json:"status"` // ok | violation | broken
	Truncated     bool                   `json:"truncated"`
}

// Ctx is the per-worker, per-path execution context.
type Ctx struct {
	shared *Shared
	tb     *TermTable
	solver *Solver

	// per path
	prefix        []Decision
	pos           int
	trace         []Decision
	pc            []*Term
	inputs        []*Term
	inputMeta     []InputVar
	observes      []obsRec
	assertsOnPath []string
	failedOnPath  []string
	cur           *frame
	depth         int
	nInstr        int
	instrBudget   int
	unwind        int
	maxUnwindSeen int
	maxAlloc      int64
	nextObj       int
	nextErr       int
	globals       map[*ssa.Global]*Object
	locks         map[string]*lockState
	held          []heldLock
	goDepth       int
	nested        map[string]*Object
	fnsSeen       map[string]int
	concreteVec   []uint64
	concretePos   int
	allocTracking bool
	allocMaxTerm  *Term
	// model is an assignment of the input variables known to satisfy the current path condition (when modelValid)
	model      map[string]uint64
	modelValid bool
	ord        *ord
	pcSet      map[*Term]bool
	auxVars    []*Term
	ordHits    int
	modelHits  int
	extra         map[string]any
}

type obsRec struct {
	label string
	t     *Term
	s     *StringV
}

func (c *Ctx) noteFn(name string) { c.fnsSeen[name]++ }

func (c *Ctx) newErrID() int { c.nextErr++; return c.nextErr }

func (c *Ctx) assume(t *Term) {
	if t.IsTrue() {
		return
	}
	if c.pcSet == nil {
		c.pcSet = map[*Term]bool{}
	}
	if c.pcSet[t] {
		return
	}
	c.pcSet[t] = true
	c.pc = append(c.pc, t)
	if c.solver != nil {
		c.solver.Assert(t)
		if c.ord != nil {
			c.ord.fact(t)
		}
	}
	if c.modelValid && !c.modelSat(t) {
		c.modelValid = false
	}
}

// modelSat evaluates a Bool term under the cached model.
func (c *Ctx) modelSat(t *Term) bool {
	if !c.modelValid {
		return false
	}
	return t.Eval(c.model, map[*Term]uint64{}) == 1
}

// peekModel returns the solver's current model without installing it (between a Sat Check and EndCheck).
func (c *Ctx) peekModel() map[string]uint64 {
	saved, savedValid := c.model, c.modelValid
	c.fetchModel()
	m := c.model
	c.model, c.modelValid = saved, savedValid
	return m
}

func copyModel(m map[string]uint64) map[string]uint64 {
	out := make(map[string]uint64, len(m))
	for k, v := range m {
		out[k] = v
	}
	return out
}

// fetchModel stores the solver's current model (call between a Sat Check and EndCheck).
func (c *Ctx) fetchModel() {
	var vars []*Term
	for _, in := range c.inputs {
		if in.op == OpVar {
			vars = append(vars, in)
		}
	}
	vars = append(vars, c.auxVars...)
	c.model = c.solver.GetValues(vars)
	c.modelValid = true
}

// assumeChecked adds cond to the path condition after checking that the path stays feasible.
func (c *Ctx) assumeChecked(cond *Term, what string) {
	if cond.IsTrue() {
		return
	}
	if cond.IsFalse() {
		panic(pathEnd{"assume", what})
	}
	if c.solver == nil {
		panic("symbolic assume in concrete mode")
	}
	if c.modelSat(cond) {
		c.modelHits++
		c.assume(cond)
		return
	}
	if c.pos < len(c.prefix) {
		// replaying: the decision still ahead was found satisfiable together with this assumption
		c.assume(cond)
		return
	}
	c.solver.tag = "assume"
	r := c.solver.Check(cond, false)
	if unsatLog != nil {
		fmt.Fprintf(unsatLog, "A%d %s :: %s\n", r, what, cond.Deep(5))
	}
	if r == Sat {
		c.fetchModel()
	}
	c.solver.EndCheck()
	if r == Unsat {
		panic(pathEnd{"assume", what})
	}
	valid := c.modelValid
	c.assume(cond)
	if r == Sat {
		c.modelValid = valid // the fetched model satisfies PC and cond by construction
	}
}

var noOrd = os.Getenv("GOSMT_NOORD") != ""

var oracleCheck = os.Getenv("GOSMT_ORACLE_CHECK") != ""

var unsatLog = func() *os.File {
	if p := os.Getenv("GOSMT_UNSATLOG"); p != "" {
		f, _ := os.Create(p)
		return f
	}
	return nil
}()

func (c *Ctx) branch(cond *Term) bool {
	if cond.IsTrue() {
		return true
	}
	if cond.IsFalse() {
		return false
	}
	return c.choose([]*Term{cond, c.tb.Not(cond)}) == 0
}

// queued is an unexplored alternative: the decision prefix that reaches it and, when the solver produced one,
// an assignment satisfying the whole prefix (so that replaying the prefix needs no solver call).
type queued struct {
	prefix []Decision
	model  map[string]uint64
}

func (c *Ctx) enqueue(d Decision, model map[string]uint64) {
	np := make([]Decision, len(c.trace)+1)
	copy(np, c.trace)
	np[len(c.trace)] = d
	s := c.shared
	s.mu.Lock()
	s.queue = append(s.queue, queued{np, model})
	s.cond.Signal()
	s.mu.Unlock()
}

// choose picks one of the exhaustive, mutually exclusive alternatives; the others (if feasible) are queued.
func (c *Ctx) choose(alts []*Term) int {
	if c.pos < len(c.prefix) {
		d := c.prefix[c.pos]
		c.pos++
		c.trace = append(c.trace, d)
		if d.N >= len(alts) {
			panic(fmt.Sprintf("replay divergence: decision %d of %d alternatives", d.N, len(alts)))
		}
		c.assume(alts[d.N])
		return d.N
	}
	if c.solver == nil {
		panic("symbolic choice in concrete mode")
	}
	var feas []int
	known := -1 // alternative satisfied by the cached model: feasible without a query
	if c.modelValid {
		memo := map[*Term]uint64{}
		for i, a := range alts {
			if a.Eval(c.model, memo) == 1 {
				known = i
				break
			}
		}
	}
	var chosenModel map[string]uint64
	var altModels map[int]map[string]uint64
	for i, a := range alts {
		if a.IsFalse() {
			continue
		}
		if i == known {
			c.modelHits++
			feas = append(feas, i)
			continue
		}
		if i == len(alts)-1 && len(feas) == 0 {
			feas = append(feas, i) // exhaustive alternatives and a satisfiable path condition
			break
		}
		if c.ord != nil && c.ord.refutes(a) {
			c.ordHits++
			if oracleCheck {
				if r := c.solver.Check(a, false); r == Sat {
					c.solver.EndCheck()
					panic(fmt.Sprintf("internal: order refuter wrong about %s (solver: %v)", a.Deep(8), r))
				}
				c.solver.EndCheck()
			}
			continue
		}
		c.solver.tag = "choose"
		r := c.solver.Check(a, false)
		if r == Sat {
			// keep its model: for the alternative taken now, or for the replay of the queued one
			saved, savedValid := c.model, c.modelValid
			c.fetchModel()
			if len(feas) == 0 {
				chosenModel = c.model
			} else {
				if altModels == nil {
					altModels = map[int]map[string]uint64{}
				}
				altModels[i] = c.model
			}
			c.model, c.modelValid = saved, savedValid
		}
		c.solver.EndCheck()
		if r == Unsat && unsatLog != nil {
			fmt.Fprintf(unsatLog, "U %s\n", a.Deep(6))
			if os.Getenv("GOSMT_UNSATPC") != "" {
				for _, p := range c.pc {
					fmt.Fprintf(unsatLog, "    pc %s\n", p.Deep(5))
				}
			}
		} else if unsatLog != nil {
			fmt.Fprintf(unsatLog, "S %s\n", a.Deep(6))
		}
		if r != Unsat {
			feas = append(feas, i)
		}
	}
	if len(feas) == 0 {
		panic(pathEnd{"infeasible", "no feasible alternative"})
	}
	for _, i := range feas[1:] {
		m := altModels[i]
		if i == known {
			m = copyModel(c.model)
		}
		c.enqueue(Decision{N: i}, m)
	}
	d := Decision{N: feas[0]}
	c.trace = append(c.trace, d)
	c.pos++
	if d.N == known {
		c.assume(alts[d.N])
	} else {
		c.assume(alts[d.N])
		if chosenModel != nil {
			c.model, c.modelValid = chosenModel, true
		} else {
			c.modelValid = false
		}
	}
	return d.N
}

// chooseAll forks over n always-feasible alternatives (scheduling-like nondeterminism).
func (c *Ctx) chooseAll(n int) int {
	if c.pos < len(c.prefix) {
		d := c.prefix[c.pos]
		c.pos++
		c.trace = append(c.trace, d)
		return d.N
	}
	for i := 1; i < n; i++ {
		var m map[string]uint64
		if c.modelValid {
			m = copyModel(c.model)
		}
		c.enqueue(Decision{N: i}, m)
	}
	c.trace = append(c.trace, Decision{N: 0})
	c.pos++
	return 0
}

// concretize enumerates the feasible values of t (forking).
func (c *Ctx) concretize(t *Term, what string) uint64 {
	for {
		if t.IsConst() {
			return t.val
		}
		if c.pos < len(c.prefix) {
			d := c.prefix[c.pos]
			c.pos++
			c.trace = append(c.trace, d)
			vt := c.tb.Const(d.Val, t.sort.bits)
			if d.N == 0 {
				c.assume(c.tb.Eq(t, vt))
				return d.Val
			}
			c.assume(c.tb.Not(c.tb.Eq(t, vt)))
			continue
		}
		if c.solver == nil {
			panic("symbolic concretize in concrete mode")
		}
		if c.modelValid {
			c.modelHits++
			v := t.Eval(c.model, map[*Term]uint64{})
			vt := c.tb.Const(v, t.sort.bits)
			ne := c.tb.Not(c.tb.Eq(t, vt))
			c.solver.tag = "conc-ne-model"
			r2 := c.solver.Check(ne, false)
			var m2 map[string]uint64
			if r2 == Sat {
				m2 = c.peekModel()
			}
			c.solver.EndCheck()
			if r2 != Unsat {
				c.enqueue(Decision{N: 1, Val: v, K: 1}, m2)
			}
			c.trace = append(c.trace, Decision{N: 0, Val: v, K: 1})
			c.pos++
			c.assume(c.tb.Eq(t, vt))
			return v
		}
		c.solver.Predefine(t)
		c.solver.tag = "conc-nil"
		r := c.solver.Check(nil, false)
		if r != Sat {
			c.solver.EndCheck()
			if r == Unknown {
				c.shared.addError("unknown while concretising " + what)
			}
			panic(pathEnd{"infeasible", "path condition not satisfiable while concretising " + what})
		}
		vals := c.solver.GetValues([]*Term{t})
		c.fetchModel()
		c.solver.EndCheck()
		v, ok := vals[t.refName()]
		if !ok {
			c.shared.addError("no model value while concretising " + what)
			panic(pathEnd{"infeasible", "no model"})
		}
		vt := c.tb.Const(v, t.sort.bits)
		ne := c.tb.Not(c.tb.Eq(t, vt))
		c.solver.tag = "conc-ne"
		r2 := c.solver.Check(ne, false)
		var m2 map[string]uint64
		if r2 == Sat {
			m2 = c.peekModel()
		}
		c.solver.EndCheck()
		if r2 != Unsat {
			c.enqueue(Decision{N: 1, Val: v, K: 1}, m2)
		}
		c.trace = append(c.trace, Decision{N: 0, Val: v, K: 1})
		c.pos++
		c.assume(c.tb.Eq(t, vt))
		return v
	}
}

func (c *Ctx) concretizeInt(t *Term, what string) int64 {
	return signExt(c.concretize(t, what), t.sort.bits)
}

func (s *Shared) addError(msg string) {
	s.mu.Lock()
	defer s.mu.Unlock()
	for _, e := range s.res.Errors {
		if e == msg {
			return
		}
	}
	if len(s.res.Errors) < 50 {
		s.res.Errors = append(s.res.Errors, msg)
	}
}

// fresh creates a new symbolic input variable.
func (c *Ctx) fresh(kind string, bitsN int, label string) *Term {
	idx := len(c.inputs)
	var t *Term
	var sort Sort
	if bitsN == 0 {
		sort = BoolSort
	} else {
		sort = BV(bitsN)
	}
	if c.concreteVec != nil {
		var v uint64
		if c.concretePos < len(c.concreteVec) {
			v = c.concreteVec[c.concretePos]
		}
		c.concretePos++
		if bitsN == 0 {
			t = c.tb.Bool(v&1 == 1)
		} else {
			t = c.tb.Const(v, bitsN)
		}
		c.inputs = append(c.inputs, t)
	} else {
		t = c.tb.Var(fmt.Sprintf("in%d", idx), sort)
		c.inputs = append(c.inputs, t)
	}
	c.inputMeta = append(c.inputMeta, InputVar{Name: fmt.Sprintf("in%d", idx), Kind: kind, Bits: bitsN, Label: label})
	return t
}

// model returns the input vector under the current (sat) solver state; must be called between Check(Sat) and EndCheck.
func (c *Ctx) modelVector() []uint64 {
	vec := make([]uint64, len(c.inputs))
	var vars []*Term
	for _, in := range c.inputs {
		if in.op == OpVar {
			vars = append(vars, in)
		}
	}
	vals := c.solver.GetValues(vars)
	for i, in := range c.inputs {
		if in.op == OpVar {
			vec[i] = vals[in.name]
		} else {
			vec[i] = in.val
		}
	}
	return vec
}

func (c *Ctx) reportViolation(kind, label, msg string, vec []uint64, script string) {
	s := c.shared
	s.mu.Lock()
	defer s.mu.Unlock()
	n := 0
	for _, v := range s.res.Violations {
		if v.Label == label && v.Kind == kind {
			n++
		}
	}
	if n >= s.opts.MaxViol {
		return
	}
	meta := make([]InputVar, len(c.inputMeta))
	copy(meta, c.inputMeta)
	tr := make([]Decision, len(c.trace))
	copy(tr, c.trace)
	s.res.Violations = append(s.res.Violations, &Violation{Label: label, Kind: kind, Msg: msg, Vector: vec, Inputs: meta, Trace: tr, Script: script})
}

// checkAssert discharges an assertion on the current path.
func (c *Ctx) checkAssert(label string, cond *Term, known string, pattern *Term) {
	st := c.shared.assertStat(label)
	c.assertsOnPath = append(c.assertsOnPath, label)
	c.shared.mu.Lock()
	st.Reached++
	c.shared.mu.Unlock()
	if cond.IsTrue() {
		c.shared.mu.Lock()
		st.Trivial++
		c.shared.mu.Unlock()
		return
	}
	if c.solver == nil { // concrete mode
		if cond.IsFalse() {
			c.failedOnPath = append(c.failedOnPath, label)
		}
		return
	}
	neg := c.tb.Not(cond)
	if known != "" && pattern != nil {
		// known finding: violations matching the pattern are reported as KNOWN, others as violations
		r := c.solver.Check(c.tb.And(neg, pattern), true)
		if r == Sat {
			c.shared.mu.Lock()
			c.shared.res.Known[known]++
			c.shared.mu.Unlock()
		}
		c.solver.EndCheck()
		neg = c.tb.And(neg, c.tb.Not(pattern))
	}
	r := c.solver.Check(neg, true)
	switch r {
	case Sat:
		vec := c.modelVector()
		c.solver.EndCheck()
		c.shared.mu.Lock()
		st.Sat++
		c.shared.mu.Unlock()
		// the path continues under the assumption that the assertion holds, so a model of the remaining path
		// satisfies it: it is not recorded as failed for the path model
		c.reportViolation("assert", label, "", vec, "")
		// continue under the assumption that the assertion holds
		r2 := c.solver.Check(cond, false)
		c.solver.EndCheck()
		if r2 == Unsat {
			panic(pathEnd{"done", "assertion fails on every continuation"})
		}
		c.assume(cond)
	case Unsat:
		c.solver.EndCheck()
		c.shared.mu.Lock()
		st.Unsat++
		c.shared.mu.Unlock()
		if c.shared.opts.CrossCheck {
			c.crossCheck(label, neg)
		}
		if known == "" {
			c.assume(cond)
		}
	default:
		c.solver.EndCheck()
		c.shared.mu.Lock()
		st.Unknown++
		c.shared.mu.Unlock()
		c.shared.addError("solver returned unknown on assertion " + label)
	}
}

func (c *Ctx) crossCheck(label string, neg *Term) {
	asserts := append(append([]*Term{}, c.pc...), neg)
	script := Script(asserts)
	for _, k := range []string{"cvc5", "z3", "z3-new"} {
		if k == c.shared.opts.Solver {
			continue
		}
		r, err := CheckFresh(k, script, c.shared.opts.TimeoutMs)
		c.shared.mu.Lock()
		c.shared.res.CrossChecked[k+":"+r.String()]++
		c.shared.mu.Unlock()
		if err != nil {
			c.shared.addError("cross-check error: " + err.Error())
		}
		if r == Sat {
			c.shared.addError("solver disagreement on " + label + ": " + k + " says sat, primary says unsat")
		}
	}
}

func (s *Shared) assertStat(label string) *AssertStat {
	s.mu.Lock()
	defer s.mu.Unlock()
	st, ok := s.res.Asserts[label]
	if !ok {
		st = &AssertStat{}
		s.res.Asserts[label] = st
	}
	return st
}

// ---------- exploration driver ----------

func (s *Shared) worker(id int) {
	tb := NewTermTable()
	var solver *Solver
	var logf *os.File
	if s.opts.Concrete == nil {
		var err error
		if s.opts.LogSMT != "" {
			logf, _ = os.Create(fmt.Sprintf("%s.%d.smt2", s.opts.LogSMT, id))
		}
		if logf != nil {
			solver, err = NewSolver(s.opts.Solver, s.opts.TimeoutMs, logf)
		} else {
			solver, err = NewSolver(s.opts.Solver, s.opts.TimeoutMs, nil)
		}
		if err != nil {
			s.addError("cannot start solver: " + err.Error())
			return
		}
		defer solver.Close()
	}
	for {
		s.mu.Lock()
		for len(s.queue) == 0 && s.active > 0 && !s.stop {
			s.cond.Wait()
		}
		if s.stop || (len(s.queue) == 0 && s.active == 0) {
			s.cond.Broadcast()
			s.mu.Unlock()
			break
		}
		// DFS: take the most recent prefix
		p := s.queue[len(s.queue)-1]
		s.queue = s.queue[:len(s.queue)-1]
		s.active++
		s.mu.Unlock()

		s.runPath(tb, solver, p.prefix, p.model)

		s.mu.Lock()
		s.active--
		if s.opts.MaxPaths > 0 && s.res.Paths >= s.opts.MaxPaths && !s.stop {
			s.stop = true
			s.res.Truncated = true
		}
		if !s.deadline.IsZero() && time.Now().After(s.deadline) && !s.stop {
			s.stop = true
			s.res.Truncated = true
		}
		s.cond.Broadcast()
		s.mu.Unlock()
		// keep the term table from growing without bound
		if len(tb.tab) > 2_000_000 {
			tb = NewTermTable()
		}
	}
	if solver != nil {
		s.mu.Lock()
		s.res.FeasQueries += solver.nFeas
		s.res.AssertQueries += solver.nAssert
		s.res.SolverSat += solver.nSat
		if s.res.ByTag == nil {
			s.res.ByTag = map[string]float64{}
		}
		for k, v := range solver.byTag {
			s.res.ByTag[k] += float64(v)
			s.res.ByTag[k+"/s"] += solver.byTagT[k].Seconds()
		}
		s.res.SolverUnsat += solver.nUnsat
		s.res.SolverUnknown += solver.nUnk
		s.res.SolverWallS += solver.wall.Seconds()
		for _, e := range solver.errors {
			if len(s.res.Errors) < 50 {
				s.res.Errors = append(s.res.Errors, "solver: "+e)
			}
		}
		s.mu.Unlock()
	}
}

func (s *Shared) runPath(tb *TermTable, solver *Solver, prefix []Decision, model map[string]uint64) {
	c := &Ctx{shared: s, tb: tb, solver: solver, prefix: prefix,
		instrBudget: s.opts.InstrBudget, unwind: s.opts.Unwind, maxAlloc: s.opts.MaxAlloc,
		globals: map[*ssa.Global]*Object{}, locks: map[string]*lockState{}, nested: map[string]*Object{},
		fnsSeen: map[string]int{}, extra: map[string]any{}}
	if s.opts.Concrete != nil {
		c.concreteVec = s.opts.Concrete
	}
	if solver != nil {
		solver.NewPath()
		c.model, c.modelValid = map[string]uint64{}, true // the empty path condition is satisfied by any assignment
		if model != nil {
			c.model = model // satisfies every assumption and decision of the prefix
		}
		if !noOrd {
			c.ord = newOrd(tb)
		}
	}
	status, msg := "end", ""
	var gp *goPanicSig
	func() {
		defer func() {
			r := recover()
			if r == nil {
				return
			}
			switch x := r.(type) {
			case pathEnd:
				status, msg = x.status, x.msg
			case *goPanicSig:
				status, msg = "panic", x.msg
				if os.Getenv("GOSMT_PANICWHERE") != "" && x.at != "" {
					msg += " @" + x.at
				}
				gp = x
			default:
				st := strings.Split(string(debug.Stack()), "\n")
				var keep []string
				for _, l := range st {
					if strings.Contains(l, "runFrame") || strings.Contains(l, "callFn") || strings.Contains(l, "doCall") || strings.Contains(l, "execBlock") || strings.Contains(l, "panic(") || strings.Contains(l, "runtime/panic.go") || strings.Contains(l, "interp.go:2") && false {
						continue
					}
					keep = append(keep, l)
					if len(keep) > 40 {
						break
					}
				}
				fmt.Fprintf(os.Stderr, "gosmt: INTERNAL ERROR: %v\n  go stack of code under test:%s\n%s\n", r, c.extra["internalWhere"], strings.Join(keep, "\n"))
				os.Exit(4)
			}
		}()
		c.callFn(s.harness, nil, nil)
	}()
	_ = gp
	// leftover locks at the end of a complete path
	if status == "end" {
		c.checkLocksReleased()
	}
	var pm *PathModel
	if (status == "end" || status == "panic") && solver != nil {
		s.mu.Lock()
		want := len(s.res.Models) < s.opts.Models
		s.mu.Unlock()
		if want {
			if c.modelValid {
				vec := make([]uint64, len(c.inputs))
				for i, in := range c.inputs {
					if in.op == OpVar {
						vec[i] = c.model[in.name]
					} else {
						vec[i] = in.val
					}
				}
				pm = c.pathModel(vec, status, msg)
			} else {
				if solver.Check(nil, false) == Sat {
					vec := c.modelVector()
					pm = c.pathModel(vec, status, msg)
				}
				solver.EndCheck()
			}
		}
	} else if (status == "end" || status == "panic") && solver == nil {
		pm = c.pathModel(c.concreteVec, status, msg)
	}
	s.mu.Lock()
	defer s.mu.Unlock()
	r := s.res
	r.Paths++
	r.Instrs += int64(c.nInstr)
	if c.maxUnwindSeen > r.MaxUnwind {
		r.MaxUnwind = c.maxUnwindSeen
	}
	for k, v := range c.fnsSeen {
		r.Functions[k] += v
	}
	switch status {
	case "end", "done":
		r.PathsEnd++
	case "assume":
		r.PathsAssume++
	case "panic":
		r.PathsPanic++
		r.PathsOther["panic: "+msg]++
	case "unsupported":
		r.Unsupported[msg]++
	default:
		r.PathsOther[status+": "+msg]++
	}
	if pm != nil && (len(r.Models) < s.opts.Models || solver == nil) {
		r.Models = append(r.Models, pm)
	}
}

func (c *Ctx) pathModel(vec []uint64, status, msg string) *PathModel {
	m := map[string]uint64{}
	for i, in := range c.inputs {
		if in.op == OpVar && i < len(vec) {
			m[in.name] = vec[i]
		}
	}
	memo := map[*Term]uint64{}
	pm := &PathModel{Vector: vec, Outcome: status, Panic: msg, Asserts: c.assertsOnPath, Failed: c.failedOnPath}
	pm.Inputs = append(pm.Inputs, c.inputMeta...)
	for _, o := range c.observes {
		if o.s != nil {
			bs := make([]byte, len(o.s.b))
			for i, t := range o.s.b {
				bs[i] = byte(t.Eval(m, memo))
			}
			pm.Observe = append(pm.Observe, Observation{Label: o.label, IsStr: true, Str: fmt.Sprintf("%x", bs)})
		} else {
			pm.Observe = append(pm.Observe, Observation{Label: o.label, Value: o.t.Eval(m, memo)})
		}
	}
	return pm
}

func explore(s *Shared) *Result {
	start := time.Now()
	s.cond = sync.NewCond(&s.mu)
	s.queue = []queued{{}}
	if s.opts.WallLimit > 0 {
		s.deadline = start.Add(s.opts.WallLimit)
	}
	n := s.opts.Workers
	if s.opts.Concrete != nil {
		n = 1
	}
	var wg sync.WaitGroup
	for i := 0; i < n; i++ {
		wg.Add(1)
		go func(id int) {
			defer wg.Done()
			s.worker(id)
		}(i)
	}
	wg.Wait()
	s.res.WallS = time.Since(start).Seconds()
	s.res.Unwind = s.opts.Unwind
	sort.Slice(s.res.Violations, func(i, j int) bool { return s.res.Violations[i].Label < s.res.Violations[j].Label })
	return s.res
}
