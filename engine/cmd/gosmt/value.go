package main

import (
	"fmt"
	"go/types"
	"strings"

	"golang.org/x/tools/go/ssa"
)

// Value is a symbolic Go value. Concrete kinds:
//
//	*Term      bool and integer scalars (Bool / BitVec)
//	FloatV     concrete float (symbolic floats are unsupported)
//	*StructV   struct (immutable; stores rebuild)
//	*ArrayV    array (immutable; stores rebuild)
//	PtrV       pointer (object + path), obj==nil is nil
//	SliceV     slice over an array object, arr==nil is nil
//	StringV    string as concrete-length vector of symbolic bytes
//	*MapV      map (nil pointer is nil map)
//	IfaceV     interface (t==nil is nil interface)
//	*ClosureV  function value (nil pointer is nil func)
//	TupleV     multiple results
//	*ChanV     channel
//	*IterV     range iterator
type Value any

type FloatV struct {
	f    float64
	bits int
}

type StructV struct{ f []Value }
type ArrayV struct{ e []Value }

type Object struct {
	id      int
	v       Value
	t       types.Type
	name    string
	allocFn *ssa.Function // function whose Alloc created the object (it may initialise it before publishing it)
	// elemGuard is set on the backing array of a slice that was loaded from a guarded field: element accesses
	// are then subject to the same mutex as the field
	elemGuard *elemGuard
}

type PtrV struct {
	obj  *Object
	path []int
	// fn pointers to functions? not needed
}

type SliceV struct {
	base          PtrV // pointer to the backing array (object + path); base.obj==nil is the nil slice
	off, len, cap int
}

func (s SliceV) isNil() bool { return s.base.obj == nil }

type StringV struct{ b []*Term }

type mapEntry struct {
	k, v Value
}

type MapV struct {
	id      int
	entries []mapEntry
	ordered bool // explore every iteration order
	kt, vt  types.Type
}

type IfaceV struct {
	t types.Type
	v Value
}

type ClosureV struct {
	fn      *ssa.Function
	env     []Value
	builtin *ssa.Builtin
	native  func(c *Ctx, args []Value) Value // engine-provided function value
}

type TupleV []Value

type ChanV struct {
	id     int
	buf    []Value
	cap    int
	closed bool
	// onBlock, if set, is called when the only thing the (single) goroutine can do is wait on this channel: it
	// models the passage of time until a context deadline fires and closes the channel.
	onBlock func()
}

type IterV struct {
	m     *MapV
	snap  []mapEntry
	left  []int // remaining indices
	str   []*Term
	pos   int
	isStr bool
}

func (p PtrV) isNil() bool { return p.obj == nil }

func (p PtrV) sub(i int) PtrV {
	np := make([]int, len(p.path)+1)
	copy(np, p.path)
	np[len(p.path)] = i
	return PtrV{obj: p.obj, path: np}
}

func (p PtrV) key() string {
	var sb strings.Builder
	fmt.Fprintf(&sb, "%d", p.obj.id)
	for _, i := range p.path {
		fmt.Fprintf(&sb, ".%d", i)
	}
	return sb.String()
}

func samePtr(a, b PtrV) bool {
	if a.obj != b.obj {
		return false
	}
	if a.obj == nil {
		return true
	}
	// normalise: pointer to a struct and pointer to its first field are different in our model, which
	// matches Go except for unsafe uses.
	if len(a.path) != len(b.path) {
		return false
	}
	for i := range a.path {
		if a.path[i] != b.path[i] {
			return false
		}
	}
	return true
}

func unalias(t types.Type) types.Type { return types.Unalias(t) }

func under(t types.Type) types.Type { return types.Unalias(t).Underlying() }

func intBits(b *types.Basic) (bitsN int, signed bool, ok bool) {
	switch b.Kind() {
	case types.Int8:
		return 8, true, true
	case types.Int16:
		return 16, true, true
	case types.Int32, types.UntypedRune:
		return 32, true, true
	case types.Int64, types.Int, types.UntypedInt:
		return 64, true, true
	case types.Uint8:
		return 8, false, true
	case types.Uint16:
		return 16, false, true
	case types.Uint32:
		return 32, false, true
	case types.Uint64, types.Uint, types.Uintptr:
		return 64, false, true
	}
	return 0, false, false
}

func isFloat(t types.Type) (int, bool) {
	if b, ok := under(t).(*types.Basic); ok {
		switch b.Kind() {
		case types.Float32:
			return 32, true
		case types.Float64, types.UntypedFloat:
			return 64, true
		}
	}
	return 0, false
}

func isInt(t types.Type) (int, bool, bool) {
	if b, ok := under(t).(*types.Basic); ok {
		return intBits(b)
	}
	return 0, false, false
}

func isString(t types.Type) bool {
	b, ok := under(t).(*types.Basic)
	return ok && b.Info()&types.IsString != 0
}

func isBool(t types.Type) bool {
	b, ok := under(t).(*types.Basic)
	return ok && b.Info()&types.IsBoolean != 0
}

// zero returns the zero value of type t.
func (c *Ctx) zero(t types.Type) Value {
	switch u := under(t).(type) {
	case *types.Basic:
		if u.Info()&types.IsBoolean != 0 {
			return c.tb.ff
		}
		if n, _, ok := intBits(u); ok {
			return c.tb.Const(0, n)
		}
		if u.Info()&types.IsString != 0 {
			return StringV{}
		}
		if u.Info()&types.IsFloat != 0 {
			if u.Kind() == types.Float32 {
				return FloatV{0, 32}
			}
			return FloatV{0, 64}
		}
		if u.Kind() == types.UnsafePointer {
			return PtrV{}
		}
		if u.Kind() == types.UntypedNil {
			return nil
		}
		c.unsupported("zero of basic type " + u.String())
	case *types.Struct:
		s := &StructV{f: make([]Value, u.NumFields())}
		for i := range s.f {
			s.f[i] = c.zero(u.Field(i).Type())
		}
		return s
	case *types.Array:
		n := int(u.Len())
		if n > 1<<16 {
			c.unsupported("huge array")
		}
		a := &ArrayV{e: make([]Value, n)}
		if n > 0 {
			z := c.zero(u.Elem())
			for i := range a.e {
				a.e[i] = z
			}
		}
		return a
	case *types.Pointer:
		return PtrV{}
	case *types.Slice:
		return SliceV{}
	case *types.Map:
		return (*MapV)(nil)
	case *types.Interface:
		return IfaceV{}
	case *types.Signature:
		return (*ClosureV)(nil)
	case *types.Chan:
		return (*ChanV)(nil)
	case *types.Tuple:
		tv := make(TupleV, u.Len())
		for i := range tv {
			tv[i] = c.zero(u.At(i).Type())
		}
		return tv
	}
	c.unsupported("zero of type " + t.String())
	return nil
}

// load navigates into an object.
func (c *Ctx) load(p PtrV) Value {
	if p.obj == nil {
		c.goPanic("nil pointer dereference", nil)
	}
	v := p.obj.v
	for _, i := range p.path {
		switch a := v.(type) {
		case *StructV:
			v = a.f[i]
		case *ArrayV:
			if i < 0 || i >= len(a.e) {
				c.goPanic("index out of range (ptr)", nil)
			}
			v = a.e[i]
		default:
			panic(fmt.Sprintf("load: cannot navigate into %T", v))
		}
	}
	return v
}

func (c *Ctx) store(p PtrV, nv Value) {
	if p.obj == nil {
		c.goPanic("nil pointer dereference", nil)
	}
	p.obj.v = updatePath(p.obj.v, p.path, nv)
}

func updatePath(v Value, path []int, nv Value) Value {
	if len(path) == 0 {
		return nv
	}
	i := path[0]
	switch a := v.(type) {
	case *StructV:
		nf := make([]Value, len(a.f))
		copy(nf, a.f)
		nf[i] = updatePath(a.f[i], path[1:], nv)
		return &StructV{f: nf}
	case *ArrayV:
		ne := make([]Value, len(a.e))
		copy(ne, a.e)
		ne[i] = updatePath(a.e[i], path[1:], nv)
		return &ArrayV{e: ne}
	}
	panic(fmt.Sprintf("store: cannot navigate into %T", v))
}

func (c *Ctx) newObject(v Value, t types.Type, name string) *Object {
	c.nextObj++
	return &Object{id: c.nextObj, v: v, t: t, name: name}
}

// newArrayObj allocates a backing array of n elements of type elem.
func (c *Ctx) newArrayObj(elem types.Type, n int) *Object {
	a := &ArrayV{e: make([]Value, n)}
	if n > 0 {
		z := c.zero(elem)
		for i := range a.e {
			a.e[i] = z
		}
	}
	return c.newObject(a, types.NewArray(elem, int64(n)), "array")
}

func (c *Ctx) sliceElems(s SliceV) []Value {
	if s.base.obj == nil || s.len == 0 {
		return nil
	}
	a := c.load(s.base).(*ArrayV)
	return a.e[s.off : s.off+s.len]
}

func (c *Ctx) makeSliceFrom(elem types.Type, vals []Value) SliceV {
	o := c.newArrayObj(elem, 0)
	ne := make([]Value, len(vals))
	copy(ne, vals)
	o.v = &ArrayV{e: ne}
	o.t = types.NewArray(elem, int64(len(vals)))
	return SliceV{base: PtrV{obj: o}, off: 0, len: len(vals), cap: len(vals)}
}

func (c *Ctx) strConst(s string) StringV {
	b := make([]*Term, len(s))
	for i := 0; i < len(s); i++ {
		b[i] = c.tb.Const(uint64(s[i]), 8)
	}
	return StringV{b: b}
}

func (s StringV) concrete() (string, bool) {
	bs := make([]byte, len(s.b))
	for i, t := range s.b {
		if !t.IsConst() {
			return "", false
		}
		bs[i] = byte(t.val)
	}
	return string(bs), true
}

// eq builds the equality term of two values of the same static type.
func (c *Ctx) eq(a, b Value) *Term {
	switch x := a.(type) {
	case *Term:
		y, ok := b.(*Term)
		if !ok {
			panic(fmt.Sprintf("eq: %T vs %T", a, b))
		}
		return c.tb.Eq(x, y)
	case FloatV:
		return c.tb.Bool(x.f == b.(FloatV).f)
	case StringV:
		y := b.(StringV)
		if len(x.b) != len(y.b) {
			return c.tb.ff
		}
		conj := make([]*Term, len(x.b))
		for i := range x.b {
			conj[i] = c.tb.Eq(x.b[i], y.b[i])
		}
		return c.tb.And(conj...)
	case *StructV:
		y := b.(*StructV)
		conj := make([]*Term, len(x.f))
		for i := range x.f {
			conj[i] = c.eq(x.f[i], y.f[i])
		}
		return c.tb.And(conj...)
	case *ArrayV:
		y := b.(*ArrayV)
		conj := make([]*Term, len(x.e))
		for i := range x.e {
			conj[i] = c.eq(x.e[i], y.e[i])
		}
		return c.tb.And(conj...)
	case PtrV:
		return c.tb.Bool(samePtr(x, b.(PtrV)))
	case IfaceV:
		y := b.(IfaceV)
		if x.t == nil || y.t == nil {
			return c.tb.Bool(x.t == nil && y.t == nil)
		}
		if !types.Identical(x.t, y.t) {
			return c.tb.ff
		}
		if !types.Comparable(x.t) {
			c.goPanic("comparing uncomparable type "+x.t.String(), nil)
		}
		return c.eq(x.v, y.v)
	case *MapV:
		y, _ := b.(*MapV)
		if x == nil || y == nil {
			return c.tb.Bool(x == nil && y == nil)
		}
		return c.tb.Bool(x == y)
	case *ChanV:
		y, _ := b.(*ChanV)
		return c.tb.Bool(x == y)
	case *ClosureV:
		y, _ := b.(*ClosureV)
		if x == nil || y == nil {
			return c.tb.Bool(x == nil && y == nil)
		}
		c.unsupported("comparison of non-nil funcs")
	case SliceV:
		y := b.(SliceV)
		if x.isNil() || y.isNil() {
			return c.tb.Bool(x.isNil() && y.isNil())
		}
		c.unsupported("comparison of non-nil slices")
	case *ErrV:
		y, _ := b.(*ErrV)
		return c.tb.Bool(x == y)
	case *NativeObj:
		y, _ := b.(*NativeObj)
		return c.tb.Bool(x == y)
	case nil:
		return c.tb.Bool(b == nil)
	}
	panic(fmt.Sprintf("eq: unhandled %T", a))
}

func typeString(t types.Type) string {
	return types.TypeString(t, nil)
}
