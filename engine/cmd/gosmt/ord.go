package main

// A cheap, sound and incomplete refuter for branch conditions. Most feasibility queries of a long path ask
// about an ordering of timestamps/lengths that the path condition already fixes; those are decided here by
// reachability in the graph of assumed order facts instead of by the solver. The refuter only ever answers
// "this literal contradicts the path condition" — anything it cannot show goes to the solver as before —
// and with GOSMT_ORACLE_CHECK=1 every refutation is re-checked by the solver.
//
// Facts: for each signedness, edges a ≤ b / a < b between terms of one width (from bvsle/bvslt/bvule/bvult
// atoms, their negations, and equalities), plus disequalities. Rules used:
//   - transitivity of a total order, constants ordered by value;
//   - a ≤ b and a ≠ b give a < b;
//   - signed, t = a − b: 0 ≤ b ≤ a gives 0 ≤ t ≤ a (and 0 < t when b < a); 0 ≤ a < b gives t < 0
//     (no wrap-around is possible for operands in [0, MAX]);
//   - signed, t = x + 1: x < y for some y gives x < t ≤ y (x is not MAX).

type ordEdge struct {
	to     int
	strict bool
}

type ordGraph struct {
	idx   map[*Term]int
	terms []*Term
	out   [][]ordEdge
	cs    []int // constant nodes
}

type ord struct {
	tb     *TermTable
	g      [2]*ordGraph // 0 signed, 1 unsigned
	ne     map[[2]*Term]bool
	arith  []*Term // bvsub / bvadd nodes seen (signed graph)
	seenAr map[*Term]bool
}

func newOrd(tb *TermTable) *ord {
	o := &ord{tb: tb, ne: map[[2]*Term]bool{}, seenAr: map[*Term]bool{}}
	for i := range o.g {
		o.g[i] = &ordGraph{idx: map[*Term]int{}}
	}
	return o
}

func (o *ord) node(k int, t *Term) int {
	g := o.g[k]
	if i, ok := g.idx[t]; ok {
		return i
	}
	i := len(g.terms)
	g.idx[t] = i
	g.terms = append(g.terms, t)
	g.out = append(g.out, nil)
	if t.IsConst() {
		n := t.sort.bits
		for _, j := range g.cs {
			c := g.terms[j]
			var lt bool
			if k == 0 {
				lt = signExt(c.val, n) < signExt(t.val, n)
			} else {
				lt = c.val < t.val
			}
			if c.sort.bits != n {
				continue
			}
			if lt {
				g.out[j] = append(g.out[j], ordEdge{i, true})
			} else {
				g.out[i] = append(g.out[i], ordEdge{j, true})
			}
		}
		g.cs = append(g.cs, i)
	}
	if !t.IsConst() && t.sort.bits > 0 && t.sort.bits <= 64 {
		// every word lies between the extreme values of its domain
		n := t.sort.bits
		lo, hi := uint64(0), mask(n)
		if k == 0 {
			lo, hi = uint64(1)<<uint(n-1), mask(n)>>1
		}
		bot, top := o.node(k, o.tb.Const(lo, n)), o.node(k, o.tb.Const(hi, n))
		g.out[bot] = append(g.out[bot], ordEdge{i, false})
		g.out[i] = append(g.out[i], ordEdge{top, false})
	}
	if k == 0 && !o.seenAr[t] {
		if (t.op == OpBvSub) || (t.op == OpBvAdd && (t.args[0].IsConst() && t.args[0].val == 1 || t.args[1].IsConst() && t.args[1].val == 1)) {
			o.seenAr[t] = true
			o.arith = append(o.arith, t)
		}
	}
	return i
}

func (o *ord) addLe(k int, a, b *Term, strict bool) {
	if a.IsConst() && b.IsConst() {
		return
	}
	if !strict && (o.ne[[2]*Term{a, b}] || o.ne[[2]*Term{b, a}]) {
		strict = true
	}
	i, j := o.node(k, a), o.node(k, b)
	o.g[k].out[i] = append(o.g[k].out[i], ordEdge{j, strict})
}

// reach reports whether a ≤* b (path) and whether some path has a strict edge.
func (o *ord) reach(k int, a, b *Term) (le, lt bool) {
	g := o.g[k]
	i, ok1 := g.idx[a]
	j, ok2 := g.idx[b]
	if a == b {
		le = true
	}
	if !ok1 || !ok2 {
		return
	}
	// state: node × strictSeen
	seen := make([]uint8, len(g.terms)) // bit0 visited non-strict, bit1 visited strict
	type st struct {
		n int
		s bool
	}
	stack := []st{{i, false}}
	seen[i] = 1
	for len(stack) > 0 {
		cur := stack[len(stack)-1]
		stack = stack[:len(stack)-1]
		if cur.n == j {
			le = true
			if cur.s {
				lt = true
				return
			}
		}
		for _, e := range g.out[cur.n] {
			s := cur.s || e.strict
			bit := uint8(1)
			if s {
				bit = 2
			}
			if seen[e.to]&bit != 0 || (!s && seen[e.to]&2 != 0) {
				continue
			}
			seen[e.to] |= bit
			stack = append(stack, st{e.to, s})
		}
	}
	return
}

// fact records an assumed Bool term.
func (o *ord) fact(t *Term) {
	o.lit(t, true)
}

func (o *ord) lit(t *Term, pos bool) {
	switch t.op {
	case OpNot:
		o.lit(t.args[0], !pos)
	case OpAnd:
		if pos {
			for _, a := range t.args {
				o.lit(a, true)
			}
		}
	case OpOr:
		if !pos {
			for _, a := range t.args {
				o.lit(a, false)
			}
		}
	case OpBvSlt, OpBvSle, OpBvUlt, OpBvUle:
		k := 0
		if t.op == OpBvUlt || t.op == OpBvUle {
			k = 1
		}
		strict := t.op == OpBvSlt || t.op == OpBvUlt
		a, b := t.args[0], t.args[1]
		if pos {
			o.addLe(k, a, b, strict)
		} else {
			o.addLe(k, b, a, !strict) // ¬(a<b) = b≤a ; ¬(a≤b) = b<a
		}
	case OpEq:
		a, b := t.args[0], t.args[1]
		if a.sort.bits == 0 {
			return
		}
		if pos {
			for k := 0; k < 2; k++ {
				o.addLe(k, a, b, false)
				o.addLe(k, b, a, false)
			}
		} else {
			o.ne[[2]*Term{a, b}] = true
			for k := 0; k < 2; k++ {
				if le, _ := o.reach(k, a, b); le && a != b {
					o.addLe(k, a, b, true)
				}
				if le, _ := o.reach(k, b, a); le && a != b {
					o.addLe(k, b, a, true)
				}
			}
		}
	}
}

// derive adds the arithmetic consequences for the bvsub / bvadd-1 nodes present in the signed graph.
func (o *ord) derive() {
	for round := 0; round < 2; round++ {
		for _, t := range o.arith {
			n := t.sort.bits
			zero := o.tb.Const(0, n)
			if t.op == OpBvSub && t.args[1].IsConst() && t.args[1].val == 1 {
				// t = a − 1 with a above the minimum: t < a, and t < y gives a ≤ y, y < a gives y ≤ t
				a := t.args[0]
				bot := o.tb.Const(uint64(1)<<uint(n-1), n)
				if _, lt := o.reach(0, bot, a); lt {
					o.addLe(0, t, a, true)
					g := o.g[0]
					ti, ai := g.idx[t], g.idx[a]
					for yi := 0; yi < len(g.terms); yi++ {
						if yi == ti || yi == ai {
							continue
						}
						y := g.terms[yi]
						if _, lt := o.reach(0, t, y); lt {
							if le, _ := o.reach(0, a, y); !le {
								o.addLe(0, a, y, false)
							}
						}
						if _, lt := o.reach(0, y, a); lt {
							if le, _ := o.reach(0, y, t); !le {
								o.addLe(0, y, t, false)
							}
						}
					}
				}
				continue
			}
			if t.op == OpBvSub {
				a, b := t.args[0], t.args[1]
				zb, _ := o.reach(0, zero, b)
				ba, baS := o.reach(0, b, a)
				if zb && ba {
					o.addLe(0, zero, t, baS)
					o.addLe(0, t, a, false)
				}
				za, _ := o.reach(0, zero, a)
				_, abS := o.reach(0, a, b)
				if za && abS {
					o.addLe(0, t, zero, true)
				}
			} else {
				x := t.args[1]
				if x.IsConst() {
					x = t.args[0]
				}
				// any strict successor of x
				g := o.g[0]
				if xi, ok := g.idx[x]; ok {
					for yi := range g.terms {
						if yi == xi {
							continue
						}
						if _, lt := o.reach(0, x, g.terms[yi]); lt && g.terms[yi] != t {
							if _, s := o.reach(0, x, t); !s {
								o.addLe(0, x, t, true)
							}
							if le, _ := o.reach(0, t, g.terms[yi]); !le {
								o.addLe(0, t, g.terms[yi], false)
							}
						}
					}
				}
			}
		}
	}
}

// refutes reports whether the literal contradicts the recorded facts.
func (o *ord) refutes(t *Term) bool {
	o.register(t)
	if len(o.arith) > 0 {
		o.derive()
	}
	return o.refLit(t, true)
}

// register makes sure arithmetic terms mentioned by the query have nodes (so that derive considers them).
func (o *ord) register(t *Term) {
	switch t.op {
	case OpNot, OpAnd, OpOr:
		for _, a := range t.args {
			o.register(a)
		}
	case OpBvSlt, OpBvSle, OpEq:
		for _, a := range t.args {
			if a.sort.bits != 0 && (a.op == OpBvSub || a.op == OpBvAdd) {
				o.node(0, a)
				if a.op == OpBvSub {
					o.node(0, o.tb.Const(0, a.sort.bits))
					o.node(0, a.args[0])
					o.node(0, a.args[1])
				} else {
					o.node(0, a.args[0])
					o.node(0, a.args[1])
				}
			}
		}
	}
}

func (o *ord) refLit(t *Term, pos bool) bool {
	switch t.op {
	case OpNot:
		return o.refLit(t.args[0], !pos)
	case OpAnd:
		if pos {
			for _, a := range t.args {
				if o.refLit(a, true) {
					return true
				}
			}
		}
		return false
	case OpOr:
		if !pos {
			for _, a := range t.args {
				if o.refLit(a, false) {
					return true
				}
			}
			return false
		}
		for _, a := range t.args {
			if !o.refLit(a, true) {
				return false
			}
		}
		return len(t.args) > 0
	case OpBvSlt, OpBvSle, OpBvUlt, OpBvUle:
		k := 0
		if t.op == OpBvUlt || t.op == OpBvUle {
			k = 1
		}
		strict := t.op == OpBvSlt || t.op == OpBvUlt
		a, b := t.args[0], t.args[1]
		if !pos { // ¬(a<b) = b≤a ; ¬(a≤b) = b<a
			a, b, strict = b, a, !strict
		}
		// claim: a < b (strict) or a ≤ b; refuted by b ≤* a resp. b <* a
		le, lt := o.reach(k, b, a)
		if strict {
			return le
		}
		return lt
	case OpEq:
		a, b := t.args[0], t.args[1]
		if a.sort.bits == 0 {
			return false
		}
		if pos {
			if o.ne[[2]*Term{a, b}] || o.ne[[2]*Term{b, a}] {
				return true
			}
			for k := 0; k < 2; k++ {
				if _, lt := o.reach(k, a, b); lt {
					return true
				}
				if _, lt := o.reach(k, b, a); lt {
					return true
				}
			}
			return false
		}
		for k := 0; k < 2; k++ {
			l1, _ := o.reach(k, a, b)
			l2, _ := o.reach(k, b, a)
			if l1 && l2 {
				return true
			}
		}
		return false
	}
	return false
}
