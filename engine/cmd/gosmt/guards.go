package main

import (
	"go/types"
	"strings"

	"golang.org/x/tools/go/ssa"
)

// checkGuard enforces the lock discipline declared by //verif:guard directives: every load/store of a guarded
// field must happen while the named mutex (relative to the same enclosing struct) is held in a sufficient mode.
type elemGuard struct {
	mutex PtrV
	g     guardSpec
}

// checkGuard ... returns the guard that matched p exactly (p is the guarded field itself), if any.
func (c *Ctx) checkGuard(p PtrV, write bool) (matched *elemGuard) {
	gs := c.shared.guards
	if len(gs) == 0 || p.obj == nil || c.extra["guardsOff"] != nil {
		return
	}
	if p.obj.allocFn != nil && c.cur != nil && p.obj.allocFn == c.cur.fn {
		return // the allocating function initialises the object before it is published
	}
	if c.cur == nil || c.isHarnessFn(c.cur.fn) {
		return // harness code builds and inspects state outside any lock by design
	}
	if eg := p.obj.elemGuard; eg != nil {
		c.checkLockMode(eg.mutex, eg.g, write, "[i]")
		return
	}
	if p.obj.t == nil {
		return
	}
	t := p.obj.t
	for k := 0; k <= len(p.path); k++ {
		if n, ok := unalias(t).(*types.Named); ok {
			if _, isStruct := n.Underlying().(*types.Struct); isStruct {
				name := n.Obj().Name()
				if n.Obj().Pkg() != nil {
					name = n.Obj().Pkg().Name() + "." + name
				}
				for _, g := range gs {
					if g.structName != name {
						continue
					}
					if eg := c.checkGuardAt(p, k, n, g, write); eg != nil {
						matched = eg
					}
				}
			}
		}
		if k == len(p.path) {
			break
		}
		switch u := under(t).(type) {
		case *types.Struct:
			t = u.Field(p.path[k]).Type()
		case *types.Array:
			t = u.Elem()
		default:
			return
		}
	}
	return
}

func fieldPath(t types.Type, names []string) ([]int, bool) {
	var idx []int
	for _, nm := range names {
		st, ok := under(t).(*types.Struct)
		if !ok {
			return nil, false
		}
		found := false
		for i := 0; i < st.NumFields(); i++ {
			if st.Field(i).Name() == nm {
				idx = append(idx, i)
				t = st.Field(i).Type()
				found = true
				break
			}
		}
		if !found {
			return nil, false
		}
	}
	return idx, true
}

func (c *Ctx) checkGuardAt(p PtrV, k int, n *types.Named, g guardSpec, write bool) *elemGuard {
	fidx, ok := fieldPath(n, strings.Split(g.field, "."))
	if !ok {
		c.unsupported("guard field path not found: " + g.structName + " " + g.field)
	}
	rest := p.path[k:]
	if len(rest) < len(fidx) {
		return nil
	}
	for i := range fidx {
		if rest[i] != fidx[i] {
			return nil
		}
	}
	midx, ok := fieldPath(n, strings.Split(g.mutex, "."))
	if !ok {
		c.unsupported("guard mutex path not found: " + g.structName + " " + g.mutex)
	}
	mp := PtrV{obj: p.obj, path: append(append([]int{}, p.path[:k]...), midx...)}
	c.checkLockMode(mp, g, write, "")
	if len(rest) == len(fidx) {
		return &elemGuard{mutex: mp, g: g}
	}
	return nil
}

func (c *Ctx) checkLockMode(mp PtrV, g guardSpec, write bool, suffix string) {
	l := c.lockOf(mp)
	okMode := l.writer || (!write && l.readers > 0)
	if okMode {
		return
	}
	mode := "read"
	if write {
		mode = "write"
	}
	label := "guard:" + g.structName + "." + g.field + suffix + ":" + mode
	st := c.shared.assertStat(label)
	c.shared.mu.Lock()
	st.Reached++
	st.Sat++
	c.shared.mu.Unlock()
	var vec []uint64
	if c.solver != nil {
		if c.solver.Check(nil, false) == Sat {
			vec = c.modelVector()
		}
		c.solver.EndCheck()
	}
	c.reportViolation("guard", label, "unguarded "+mode+" of "+g.structName+"."+g.field+suffix+c.where(), vec, "")
}

// isHarnessFn reports whether fn is defined in a harness file (zz_verif_*.go).
func (c *Ctx) isHarnessFn(fn *ssa.Function) bool {
	if v, ok := c.shared.harnessFns.Load(fn); ok {
		return v.(bool)
	}
	f := fn
	for f.Parent() != nil {
		f = f.Parent()
	}
	res := false
	if f.Pos().IsValid() {
		res = strings.Contains(c.shared.prog.Fset.Position(f.Pos()).Filename, "zz_verif_")
	} else if o := f.Origin(); o != nil && o.Pos().IsValid() {
		res = strings.Contains(c.shared.prog.Fset.Position(o.Pos()).Filename, "zz_verif_")
	}
	c.shared.harnessFns.Store(fn, res)
	return res
}
