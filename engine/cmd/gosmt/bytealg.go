package main

import (
	"go/types"
	"strings"

	"golang.org/x/tools/go/ssa"
)

func (c *Ctx) bytesOf(v Value) []*Term {
	switch x := v.(type) {
	case StringV:
		return x.b
	case SliceV:
		els := c.sliceElems(x)
		out := make([]*Term, len(els))
		for i, e := range els {
			out[i] = e.(*Term)
		}
		return out
	}
	panic("bytesOf: not bytes")
}

func (c *Ctx) bytesSlice(b []*Term) SliceV {
	vals := make([]Value, len(b))
	for i, t := range b {
		vals[i] = t
	}
	return c.makeSliceFrom(types.Typ[types.Uint8], vals)
}

// indexOf builds the term for the first index i with a[i:i+len(b)] == b, or -1.
func (c *Ctx) indexOf(a, b []*Term) *Term {
	res := c.tb.Const(^uint64(0), 64)
	for i := len(a) - len(b); i >= 0; i-- {
		conj := make([]*Term, len(b))
		for j := range b {
			conj[j] = c.tb.Eq(a[i+j], b[j])
		}
		res = c.tb.Ite(c.tb.And(conj...), c.intConst(i), res)
	}
	return res
}

func (c *Ctx) lastIndexOf(a, b []*Term) *Term {
	res := c.tb.Const(^uint64(0), 64)
	for i := 0; i+len(b) <= len(a); i++ {
		conj := make([]*Term, len(b))
		for j := range b {
			conj[j] = c.tb.Eq(a[i+j], b[j])
		}
		res = c.tb.Ite(c.tb.And(conj...), c.intConst(i), res)
	}
	return res
}

func (c *Ctx) compareBytes(a, b []*Term) *Term {
	x, y := StringV{b: a}, StringV{b: b}
	lt := c.strLess(x, y, false)
	eq := c.eq(x, y)
	return c.tb.Ite(lt, c.tb.Const(^uint64(0), 64), c.tb.Ite(eq, c.intConst(0), c.intConst(1)))
}

func init() {
	reg := func(name string, f intrinsic) { intrinsics[name] = f }
	count := func(c *Ctx, fn *ssa.Function, a []Value) Value {
		bs := c.bytesOf(a[0])
		ch := a[1].(*Term)
		sum := c.intConst(0)
		for _, b := range bs {
			sum = c.tb.Bin(OpBvAdd, sum, c.tb.Ite(c.tb.Eq(b, ch), c.intConst(1), c.intConst(0)))
		}
		return sum
	}
	reg("internal/bytealg.CountString", count)
	reg("internal/bytealg.Count", count)
	idxByte := func(c *Ctx, fn *ssa.Function, a []Value) Value {
		return c.indexOf(c.bytesOf(a[0]), []*Term{a[1].(*Term)})
	}
	reg("internal/bytealg.IndexByteString", idxByte)
	reg("internal/bytealg.IndexByte", idxByte)
	lastIdxByte := func(c *Ctx, fn *ssa.Function, a []Value) Value {
		return c.lastIndexOf(c.bytesOf(a[0]), []*Term{a[1].(*Term)})
	}
	reg("internal/bytealg.LastIndexByteString", lastIdxByte)
	reg("internal/bytealg.LastIndexByte", lastIdxByte)
	idx := func(c *Ctx, fn *ssa.Function, a []Value) Value {
		return c.indexOf(c.bytesOf(a[0]), c.bytesOf(a[1]))
	}
	reg("internal/bytealg.IndexString", idx)
	reg("internal/bytealg.Index", idx)
	reg("strings.Index", idx)
	reg("bytes.Index", idx)
	reg("strings.IndexByte", idxByte)
	reg("bytes.IndexByte", idxByte)
	reg("strings.LastIndexByte", lastIdxByte)
	reg("strings.LastIndex", func(c *Ctx, fn *ssa.Function, a []Value) Value {
		return c.lastIndexOf(c.bytesOf(a[0]), c.bytesOf(a[1]))
	})
	reg("internal/bytealg.Equal", func(c *Ctx, fn *ssa.Function, a []Value) Value {
		return c.eq(StringV{b: c.bytesOf(a[0])}, StringV{b: c.bytesOf(a[1])})
	})
	reg("bytes.Equal", intrinsics["internal/bytealg.Equal"])
	cmp := func(c *Ctx, fn *ssa.Function, a []Value) Value {
		return c.compareBytes(c.bytesOf(a[0]), c.bytesOf(a[1]))
	}
	reg("internal/bytealg.Compare", cmp)
	reg("internal/bytealg.CompareString", cmp)
	reg("bytes.Compare", cmp)
	reg("strings.Compare", cmp)
	reg("internal/stringslite.HasPrefix", func(c *Ctx, fn *ssa.Function, a []Value) Value {
		s, p := c.bytesOf(a[0]), c.bytesOf(a[1])
		if len(p) > len(s) {
			return c.tb.ff
		}
		return c.eq(StringV{b: s[:len(p)]}, StringV{b: p})
	})
	reg("strings.HasPrefix", intrinsics["internal/stringslite.HasPrefix"])
	reg("bytes.HasPrefix", intrinsics["internal/stringslite.HasPrefix"])
	reg("internal/stringslite.HasSuffix", func(c *Ctx, fn *ssa.Function, a []Value) Value {
		s, p := c.bytesOf(a[0]), c.bytesOf(a[1])
		if len(p) > len(s) {
			return c.tb.ff
		}
		return c.eq(StringV{b: s[len(s)-len(p):]}, StringV{b: p})
	})
	reg("strings.HasSuffix", intrinsics["internal/stringslite.HasSuffix"])
	reg("bytes.HasSuffix", intrinsics["internal/stringslite.HasSuffix"])
	reg("internal/bytealg.MakeNoZero", func(c *Ctx, fn *ssa.Function, a []Value) Value {
		n := int(c.concretizeInt(a[0].(*Term), "MakeNoZero"))
		if int64(n) > 1<<20 {
			c.unsupported("MakeNoZero too large")
		}
		o := c.newArrayObj(types.Typ[types.Uint8], n)
		return SliceV{base: PtrV{obj: o}, len: n, cap: n}
	})
	// x/unsafe.CastBytes[T]: little-endian reinterpretation of the first sizeof(T) bytes (amd64)
	reg("github.com/synnaxlabs/x/unsafe.CastBytes", func(c *Ctx, fn *ssa.Function, a []Value) Value {
		t := fn.TypeArgs()[0]
		n, _, ok := isInt(t)
		if !ok {
			c.unsupported("CastBytes to non-integer type " + t.String())
		}
		bs := c.bytesOf(a[0])
		if len(bs)*8 < n {
			return TupleV{c.zero(t), c.newErr("unsafe.CastBytes: byte slice too short")}
		}
		v := bs[0]
		for i := 1; i < n/8; i++ {
			v = c.tb.Concat(bs[i], v)
		}
		return TupleV{v, IfaceV{}}
	})
	// x/unsafe.CastSlice[A, B]: reinterpretation of a slice of fixed-size integers as another (amd64: little
	// endian). Modelled as a COPY: reads see the right values; a write through the result would not reach the
	// source (the callers in telem only read, or own the source exclusively).
	reg("github.com/synnaxlabs/x/unsafe.CastSlice", func(c *Ctx, fn *ssa.Function, a []Value) Value {
		ta, tb := fn.TypeArgs()[0], fn.TypeArgs()[1]
		na, _, okA := isInt(ta)
		nb, _, okB := isInt(tb)
		if !okA || !okB || na%8 != 0 || nb%8 != 0 {
			c.unsupported("CastSlice between " + ta.String() + " and " + tb.String())
		}
		in := a[0].(SliceV)
		if in.len == 0 {
			return SliceV{}
		}
		var bytes []*Term
		for _, e := range c.sliceElems(in) {
			t := e.(*Term)
			for i := 0; i < na/8; i++ {
				bytes = append(bytes, c.tb.Extract(t, 8*i+7, 8*i))
			}
		}
		if (len(bytes)*8)%nb != 0 {
			c.goPanic("unsafe.CastSlice: incompatible element size", nil)
		}
		out := make([]Value, 0, len(bytes)*8/nb)
		for i := 0; i+nb/8 <= len(bytes); i += nb / 8 {
			v := bytes[i]
			for j := 1; j < nb/8; j++ {
				v = c.tb.Concat(bytes[i+j], v)
			}
			out = append(out, v)
		}
		return c.makeSliceFrom(tb, out)
	})
	// encoding/binary.Write for integers (named or not) and byte slices: the reflect-based slow path is summarised
	reg("encoding/binary.Write", func(c *Ctx, fn *ssa.Function, a []Value) Value {
		w, order, data := a[0].(IfaceV), a[1].(IfaceV), a[2].(IfaceV)
		little := strings.Contains(order.t.String(), "littleEndian")
		if !little && !strings.Contains(order.t.String(), "bigEndian") {
			c.unsupported("binary.Write with byte order " + order.t.String())
		}
		var out []*Term
		switch v := data.v.(type) {
		case *Term:
			n := v.sort.bits
			if n == 0 {
				out = []*Term{c.tb.BoolToBV(v, 8)}
			} else {
				for i := 0; i < n/8; i++ {
					out = append(out, c.tb.Extract(v, 8*i+7, 8*i))
				}
				if !little {
					for i, j := 0, len(out)-1; i < j; i, j = i+1, j-1 {
						out[i], out[j] = out[j], out[i]
					}
				}
			}
		case SliceV:
			if el, ok := under(under(data.t).(*types.Slice).Elem()).(*types.Basic); !ok || el.Kind() != types.Uint8 {
				c.unsupported("binary.Write of " + data.t.String())
			}
			out = c.bytesOf(v)
		default:
			c.unsupported("binary.Write of " + data.t.String())
		}
		var m *types.Func
		ms := c.shared.prog.MethodSets.MethodSet(w.t)
		for i := 0; i < ms.Len(); i++ {
			if ms.At(i).Obj().Name() == "Write" {
				m = ms.At(i).Obj().(*types.Func)
			}
		}
		if m == nil {
			c.unsupported("binary.Write: writer without Write method")
		}
		res := c.invoke(w, m, []Value{c.bytesSlice(out)}).(TupleV)
		return res[1]
	})
	// strings.Builder: String() uses unsafe.String; copyCheck uses noescape tricks
	reg("(*strings.Builder).String", func(c *Ctx, fn *ssa.Function, a []Value) Value {
		p := a[0].(PtrV)
		st := c.load(p).(*StructV)
		for _, f := range st.f {
			if sl, ok := f.(SliceV); ok {
				return StringV{b: c.bytesOf(sl)}
			}
		}
		return StringV{}
	})
	reg("(*strings.Builder).copyCheck", func(c *Ctx, fn *ssa.Function, a []Value) Value { return nil })
	reg("internal/abi.NoEscape", func(c *Ctx, fn *ssa.Function, a []Value) Value { return a[0] })
	reg("internal/abi.Escape", func(c *Ctx, fn *ssa.Function, a []Value) Value { return a[0] })
	reg("internal/race.Enabled", nil)
	delete(intrinsics, "internal/race.Enabled")
	for _, n := range []string{"Acquire", "Release", "ReleaseMerge", "Disable", "Enable", "Read", "Write", "ReadRange", "WriteRange", "ReadObjectPC", "WriteObjectPC", "ReadPC", "WritePC"} {
		reg("internal/race."+n, func(c *Ctx, fn *ssa.Function, a []Value) Value { return nil })
	}
}

// unsafeBuiltin handles unsafe.String / StringData / Slice / SliceData (SSA builtins).
func (c *Ctx) unsafeBuiltin(name string, args []Value) (Value, bool) {
	elemPtr := func(p PtrV) (PtrV, int) {
		if p.obj == nil {
			return PtrV{}, 0
		}
		if len(p.path) == 0 {
			c.unsupported("unsafe builtin on a non-element pointer")
		}
		return PtrV{obj: p.obj, path: p.path[:len(p.path)-1]}, p.path[len(p.path)-1]
	}
	switch name {
	case "String":
		n := int(c.concretizeInt(args[1].(*Term), "unsafe.String len"))
		if n == 0 {
			return StringV{}, true
		}
		base, off := elemPtr(args[0].(PtrV))
		a := c.load(base).(*ArrayV)
		b := make([]*Term, n)
		for i := range b {
			b[i] = a.e[off+i].(*Term)
		}
		return StringV{b: b}, true
	case "Slice":
		n := int(c.concretizeInt(args[1].(*Term), "unsafe.Slice len"))
		p := args[0].(PtrV)
		if p.obj == nil {
			return SliceV{}, true
		}
		if at, ok := under(c.typeOfPtr(p)).(*types.Array); ok && int(at.Len()) >= n {
			// a pointer to a whole array reinterpreted as a pointer to its first element
			// (e.g. (*byte)(unsafe.Pointer(&uuid)))
			return SliceV{base: p, off: 0, len: n, cap: n}, true
		}
		base, off := elemPtr(p)
		return SliceV{base: base, off: off, len: n, cap: n}, true
	case "SliceData":
		s := args[0].(SliceV)
		if s.isNil() {
			return PtrV{}, true
		}
		if s.cap == 0 {
			return s.base.sub(s.off), true
		}
		return s.base.sub(s.off), true
	case "StringData":
		s := args[0].(StringV)
		sl := c.bytesSlice(s.b)
		return sl.base.sub(0), true
	}
	return nil, false
}
