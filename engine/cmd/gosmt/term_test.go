package main

import (
	"math/rand"
	"testing"
)

// TestSimplifierAgreesWithRawTerms builds random terms twice — through the simplifying constructors and as raw
// nodes — and compares their values under random assignments. The simplifier is part of the trusted base.
func TestSimplifierAgreesWithRawTerms(t *testing.T) {
	rng := rand.New(rand.NewSource(1))
	for iter := 0; iter < 60000; iter++ {
		tb := NewTermTable()
		vars := []*Term{tb.Var("a", BV(64)), tb.Var("b", BV(64)), tb.Var("c", BV(8)), tb.Var("d", BV(16)), tb.Var("e", BV(32))}
		raw, simp := genPair(tb, rng, 5, 64, vars)
		if iter%2 == 1 { // a comparison or equality on top, including against the extreme constants
			r2, s2 := genPair(tb, rng, 3, 64, vars)
			switch rng.Intn(5) {
			case 0:
				c := []uint64{0, ^uint64(0), 1 << 63, 1<<63 - 1}[rng.Intn(4)]
				r2, s2 = tb.Const(c, 64), tb.Const(c, 64)
			case 1:
				r2, s2 = rawT(tb, OpBvSub, BV(64), 0, 0, raw, r2), tb.Bin(OpBvSub, simp, s2)
				raw, simp = tb.Const(0, 64), tb.Const(0, 64)
			}
			if rng.Intn(2) == 0 {
				raw, r2, simp, s2 = r2, raw, s2, simp
			}
			ops := []Op{OpBvUlt, OpBvSle, OpBvSlt, OpBvUle, OpEq}
			op := ops[rng.Intn(5)]
			if op == OpEq {
				raw, simp = rawT(tb, OpEq, BoolSort, 0, 0, raw, r2), tb.Eq(simp, s2)
			} else {
				raw, simp = rawT(tb, op, BoolSort, 0, 0, raw, r2), tb.Cmp(op, simp, s2)
			}
		}
		for k := 0; k < 4; k++ {
			m := map[string]uint64{}
			for _, v := range vars {
				x := rng.Uint64()
				switch rng.Intn(4) {
				case 0:
					x = 0
				case 1:
					x = ^uint64(0)
				}
				m[v.name] = x & mask(v.sort.bits)
			}
			r := raw.Eval(m, map[*Term]uint64{})
			s := simp.Eval(m, map[*Term]uint64{})
			if r != s {
				t.Fatalf("iter %d: raw %s = %x, simplified %s = %x under %v", iter, raw.Deep(20), r, simp.Deep(20), s, m)
			}
		}
	}
}

func rawT(tb *TermTable, op Op, s Sort, p1, p2 int, args ...*Term) *Term {
	return tb.mk(&Term{op: op, sort: s, args: args, p1: p1, p2: p2})
}

// genPair returns (raw, simplified) terms of width w.
func genPair(tb *TermTable, rng *rand.Rand, depth, w int, vars []*Term) (*Term, *Term) {
	if depth == 0 || rng.Intn(6) == 0 {
		if rng.Intn(3) == 0 {
			c := rng.Uint64()
			switch rng.Intn(4) {
			case 0:
				c = 0
			case 1:
				c = uint64(rng.Intn(70))
			}
			k := tb.Const(c, w)
			return k, k
		}
		v := vars[rng.Intn(len(vars))]
		switch {
		case v.sort.bits == w:
			return v, v
		case v.sort.bits > w:
			lo := rng.Intn(v.sort.bits - w + 1)
			return rawT(tb, OpExtract, BV(w), lo+w-1, lo, v), tb.Extract(v, lo+w-1, lo)
		default:
			return rawT(tb, OpZext, BV(w), w-v.sort.bits, 0, v), tb.Zext(v, w)
		}
	}
	switch rng.Intn(9) {
	case 0, 1: // or / and / xor / add / sub
		ops := []Op{OpBvOr, OpBvOr, OpBvAnd, OpBvXor, OpBvAdd, OpBvSub}
		op := ops[rng.Intn(len(ops))]
		r1, s1 := genPair(tb, rng, depth-1, w, vars)
		r2, s2 := genPair(tb, rng, depth-1, w, vars)
		return rawT(tb, op, BV(w), 0, 0, r1, r2), tb.Bin(op, s1, s2)
	case 2, 3: // shift by constant
		ops := []Op{OpBvShl, OpBvLshr, OpBvShl}
		op := ops[rng.Intn(len(ops))]
		r1, s1 := genPair(tb, rng, depth-1, w, vars)
		k := tb.Const(uint64(rng.Intn(w/8+1)*8), w)
		if rng.Intn(5) == 0 {
			k = tb.Const(uint64(rng.Intn(w+2)), w)
		}
		return rawT(tb, op, BV(w), 0, 0, r1, k), tb.Bin(op, s1, k)
	case 4: // zext of narrower
		if w > 8 {
			iw := []int{8, 16, 32}[rng.Intn(3)]
			if iw < w {
				r1, s1 := genPair(tb, rng, depth-1, iw, vars)
				return rawT(tb, OpZext, BV(w), w-iw, 0, r1), tb.Zext(s1, w)
			}
		}
	case 5: // extract from wider
		if w < 64 {
			ow := 64
			r1, s1 := genPair(tb, rng, depth-1, ow, vars)
			lo := rng.Intn((ow-w)/8+1) * 8
			if lo+w > ow {
				lo = ow - w
			}
			return rawT(tb, OpExtract, BV(w), lo+w-1, lo, r1), tb.Extract(s1, lo+w-1, lo)
		}
	case 6: // concat
		if w >= 16 {
			lw := (rng.Intn(w/8-1) + 1) * 8
			r1, s1 := genPair(tb, rng, depth-1, w-lw, vars)
			r2, s2 := genPair(tb, rng, depth-1, lw, vars)
			return rawT(tb, OpConcat, BV(w), 0, 0, r1, r2), tb.Concat(s1, s2)
		}
	case 7: // sext
		if w > 8 {
			iw := []int{8, 16, 32}[rng.Intn(3)]
			if iw < w {
				r1, s1 := genPair(tb, rng, depth-1, iw, vars)
				return rawT(tb, OpSext, BV(w), w-iw, 0, r1), tb.Sext(s1, w)
			}
		}
	case 8: // ite on a comparison
		r1, s1 := genPair(tb, rng, depth-1, w, vars)
		r2, s2 := genPair(tb, rng, depth-1, w, vars)
		cmps := []Op{OpBvUlt, OpBvSle, OpBvSlt, OpBvUle}
		op := cmps[rng.Intn(4)]
		rc := rawT(tb, op, BoolSort, 0, 0, r1, r2)
		sc := tb.Cmp(op, s1, s2)
		return rawT(tb, OpIte, BV(w), 0, 0, rc, r1, r2), tb.Ite(sc, s1, s2)
	}
	return genPair(tb, rng, depth-1, w, vars)
}
