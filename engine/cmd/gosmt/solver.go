package main

import (
	"bufio"
	"fmt"
	"io"
	"os/exec"
	"strconv"
	"strings"
	"time"
)

type SatResult int

const (
	Unsat SatResult = iota
	Sat
	Unknown
)

func (r SatResult) String() string { return [...]string{"unsat", "sat", "unknown"}[r] }

// Solver is one long-lived SMT solver process speaking SMT-LIB2 on stdin/stdout.
type Solver struct {
	name    string
	cmd     *exec.Cmd
	in      io.WriteCloser
	out     *bufio.Reader
	defined map[int]bool // term ids defined in the current path scope
	vars    map[string]bool
	log     io.Writer
	// stats
	nFeas, nAssert     int
	nSat, nUnsat, nUnk int
	tag    string
	byTag  map[string]int
	byTagT map[string]time.Duration
	wall               time.Duration
	timeoutMs          int
	errors             []string
}

func solverArgv(kind string, timeoutMs int) []string {
	switch kind {
	case "z3":
		return []string{"z3", "-in", "-smt2"}
	case "z3-new":
		return []string{"z3-new", "-in", "-smt2"}
	case "cvc5":
		return []string{"cvc5", "--incremental", "--lang=smt2", fmt.Sprintf("--tlimit-per=%d", timeoutMs)}
	}
	panic("unknown solver " + kind)
}

func NewSolver(kind string, timeoutMs int, log io.Writer) (*Solver, error) {
	argv := solverArgv(kind, timeoutMs)
	cmd := exec.Command(argv[0], argv[1:]...)
	in, err := cmd.StdinPipe()
	if err != nil {
		return nil, err
	}
	outp, err := cmd.StdoutPipe()
	if err != nil {
		return nil, err
	}
	cmd.Stderr = cmd.Stdout
	if err := cmd.Start(); err != nil {
		return nil, err
	}
	s := &Solver{name: kind, cmd: cmd, in: in, out: bufio.NewReaderSize(outp, 1<<16), log: log, timeoutMs: timeoutMs,
		defined: map[int]bool{}, vars: map[string]bool{}}
	if kind == "cvc5" {
		s.send("(set-logic ALL)")
	}
	s.send("(set-option :produce-models true)")
	if kind != "cvc5" {
		s.send(fmt.Sprintf("(set-option :timeout %d)", timeoutMs))
	}
	s.send("(push 1)")
	return s, nil
}

func (s *Solver) Close() {
	s.in.Close()
	s.cmd.Process.Kill()
	s.cmd.Wait()
}

func (s *Solver) send(line string) {
	if s.log != nil {
		fmt.Fprintln(s.log, line)
	}
	io.WriteString(s.in, line)
	io.WriteString(s.in, "\n")
}

// sync sends an echo marker and reads everything up to it; returns the lines before the marker.
func (s *Solver) sync() []string {
	s.send(`(echo "<<sync>>")`)
	var lines []string
	for {
		l, err := s.out.ReadString('\n')
		if err != nil {
			s.errors = append(s.errors, "solver died: "+err.Error())
			return lines
		}
		l = strings.TrimSpace(l)
		if l == "<<sync>>" || l == `"<<sync>>"` {
			return lines
		}
		if l != "" {
			if strings.Contains(l, "(error") {
				s.errors = append(s.errors, l)
			}
			if s.log != nil {
				fmt.Fprintln(s.log, "; <- "+l)
			}
			lines = append(lines, l)
		}
	}
}

// NewPath resets the path-level scope.
func (s *Solver) NewPath() {
	s.send("(pop 1)")
	s.send("(push 1)")
	s.defined = map[int]bool{}
	s.vars = map[string]bool{}
}

// define makes sure t and its subterms are defined in the current scope; returns the reference.
func (s *Solver) define(t *Term) string {
	switch t.op {
	case OpConst:
		return t.ref()
	case OpVar:
		if !s.vars[t.name] {
			s.vars[t.name] = true
			s.send(fmt.Sprintf("(declare-const %s %s)", t.name, t.sort))
		}
		return t.name
	}
	if s.defined[t.id] {
		return t.ref()
	}
	// iterative post-order to avoid deep recursion
	type item struct {
		t    *Term
		next int
	}
	stack := []item{{t, 0}}
	for len(stack) > 0 {
		top := &stack[len(stack)-1]
		if top.next < len(top.t.args) {
			a := top.t.args[top.next]
			top.next++
			if a.op == OpVar {
				if !s.vars[a.name] {
					s.vars[a.name] = true
					s.send(fmt.Sprintf("(declare-const %s %s)", a.name, a.sort))
				}
			} else if a.op != OpConst && !s.defined[a.id] {
				stack = append(stack, item{a, 0})
			}
			continue
		}
		tt := top.t
		stack = stack[:len(stack)-1]
		if !s.defined[tt.id] {
			s.defined[tt.id] = true
			s.send(fmt.Sprintf("(define-fun t%d () %s %s)", tt.id, tt.sort, tt.body()))
		}
	}
	return t.ref()
}

// Assert adds t to the path condition.
func (s *Solver) Assert(t *Term) {
	if t.IsTrue() {
		return
	}
	r := s.define(t)
	s.send("(assert " + r + ")")
}

// Check decides satisfiability of (path condition AND extra).
func (s *Solver) Check(extra *Term, isAssert bool) SatResult {
	if isAssert {
		s.nAssert++
	} else {
		s.nFeas++
	}
	start := time.Now()
	var res SatResult
	if extra != nil {
		if extra.IsFalse() {
			s.send("(push 1)")
			return Unsat
		}
		r := s.define(extra)
		s.send("(push 1)")
		s.send("(assert " + r + ")")
		s.send("(check-sat)")
		res = s.readResult()
		// keep scope for GetValues when sat; caller must call EndCheck
	} else {
		s.send("(push 1)")
		s.send("(check-sat)")
		res = s.readResult()
	}
	s.wall += time.Since(start)
	if s.byTag == nil {
		s.byTag, s.byTagT = map[string]int{}, map[string]time.Duration{}
	}
	k := fmt.Sprintf("%s/%d", s.tag, res)
	s.byTag[k]++
	s.byTagT[k] += time.Since(start)
	s.tag = ""
	switch res {
	case Sat:
		s.nSat++
	case Unsat:
		s.nUnsat++
	default:
		s.nUnk++
	}
	return res
}

// Predefine makes sure t is defined at path level (outside any check scope).
func (s *Solver) Predefine(t *Term) { s.define(t) }

// EndCheck pops the scope opened by Check.
func (s *Solver) EndCheck() { s.send("(pop 1)") }

func (s *Solver) readResult() SatResult {
	lines := s.sync()
	res := Unknown
	sawErr := false
	for _, l := range lines {
		switch {
		case l == "sat":
			res = Sat
		case l == "unsat":
			res = Unsat
		case l == "unknown" || strings.HasPrefix(l, "timeout"):
			res = Unknown
		case strings.Contains(l, "(error"):
			sawErr = true
		}
	}
	if sawErr {
		return Unknown
	}
	return res
}

// GetValues returns model values of the given variable terms (must be called after a Sat Check, before EndCheck).
func (s *Solver) GetValues(vars []*Term) map[string]uint64 {
	out := map[string]uint64{}
	if len(vars) == 0 {
		return out
	}
	// never declare/define inside the check scope (it would be popped): unknown variables are unconstrained
	var names []string
	var asked []*Term
	for _, v := range vars {
		if v.op == OpVar && !s.vars[v.name] {
			continue
		}
		if v.op != OpVar && v.op != OpConst && !s.defined[v.id] {
			panic("GetValues on a term that was not predefined")
		}
		names = append(names, v.ref())
		asked = append(asked, v)
	}
	if len(names) == 0 {
		return out
	}
	vars = asked
	// batch
	s.send("(get-value (" + strings.Join(names, " ") + "))")
	lines := s.sync()
	txt := strings.Join(lines, " ")
	// parse ((name value) (name value) ...)
	toks := tokenize(txt)
	depth := 0
	for i := 0; i < len(toks); i++ {
		switch toks[i] {
		case "(":
			depth++
			if depth == 2 && i+2 < len(toks) && toks[i+1] != "(" {
				if v, ok := parseValue(toks[i+2], toks, i+2); ok {
					out[toks[i+1]] = v
				}
			}
		case ")":
			depth--
		}
	}
	res := map[string]uint64{}
	for i, v := range vars {
		if x, ok := out[names[i]]; ok {
			res[v.refName()] = x
		}
	}
	return res
}

func (t *Term) refName() string {
	if t.op == OpVar {
		return t.name
	}
	return t.ref()
}

func tokenize(s string) []string {
	var toks []string
	cur := strings.Builder{}
	flush := func() {
		if cur.Len() > 0 {
			toks = append(toks, cur.String())
			cur.Reset()
		}
	}
	for _, c := range s {
		switch c {
		case '(', ')':
			flush()
			toks = append(toks, string(c))
		case ' ', '\t', '\n':
			flush()
		default:
			cur.WriteRune(c)
		}
	}
	flush()
	return toks
}

func parseValue(tok string, toks []string, i int) (uint64, bool) {
	switch {
	case tok == "true":
		return 1, true
	case tok == "false":
		return 0, true
	case strings.HasPrefix(tok, "#x"):
		v, err := strconv.ParseUint(tok[2:], 16, 64)
		return v, err == nil
	case strings.HasPrefix(tok, "#b"):
		v, err := strconv.ParseUint(tok[2:], 2, 64)
		return v, err == nil
	case tok == "(" && i+2 < len(toks) && toks[i+1] == "_" && strings.HasPrefix(toks[i+2], "bv"):
		v, err := strconv.ParseUint(toks[i+2][2:], 10, 64)
		return v, err == nil
	}
	return 0, false
}

// Script renders a self-contained SMT-LIB script for a set of assertions (used for cross-checks).
func Script(asserts []*Term) string {
	var sb strings.Builder
	defined := map[int]bool{}
	vars := map[string]bool{}
	var def func(t *Term)
	def = func(t *Term) {
		switch t.op {
		case OpConst:
			return
		case OpVar:
			if !vars[t.name] {
				vars[t.name] = true
				fmt.Fprintf(&sb, "(declare-const %s %s)\n", t.name, t.sort)
			}
			return
		}
		if defined[t.id] {
			return
		}
		for _, a := range t.args {
			def(a)
		}
		defined[t.id] = true
		fmt.Fprintf(&sb, "(define-fun t%d () %s %s)\n", t.id, t.sort, t.body())
	}
	for _, a := range asserts {
		def(a)
		fmt.Fprintf(&sb, "(assert %s)\n", a.ref())
	}
	sb.WriteString("(check-sat)\n")
	return sb.String()
}

// CheckFresh runs a one-shot query on a named solver binary.
func CheckFresh(kind string, script string, timeoutMs int) (SatResult, error) {
	var argv []string
	switch kind {
	case "z3", "z3-new":
		argv = []string{kind, "-in", "-smt2", fmt.Sprintf("-t:%d", timeoutMs)}
	case "cvc5":
		argv = []string{"cvc5", "--lang=smt2", fmt.Sprintf("--tlimit=%d", timeoutMs)}
		script = "(set-logic ALL)\n" + script
	}
	cmd := exec.Command(argv[0], argv[1:]...)
	cmd.Stdin = strings.NewReader(script)
	out, _ := cmd.CombinedOutput()
	txt := string(out)
	if strings.Contains(txt, "(error") {
		return Unknown, fmt.Errorf("%s: %s", kind, strings.TrimSpace(txt))
	}
	for _, l := range strings.Split(txt, "\n") {
		switch strings.TrimSpace(l) {
		case "sat":
			return Sat, nil
		case "unsat":
			return Unsat, nil
		}
	}
	return Unknown, nil
}
