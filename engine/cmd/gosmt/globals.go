package main

import (
	"fmt"
	"go/types"

	"golang.org/x/tools/go/ssa"
)

// globalObj returns the object backing a package-level variable, initialising it lazily from the
// backward slice of its initialiser in the package's init function (package initialisers are not run).
func (c *Ctx) globalObj(g *ssa.Global) *Object {
	if o, ok := c.globals[g]; ok {
		return o
	}
	t := g.Type().(*types.Pointer).Elem()
	o := c.newObject(c.zero(t), t, g.String())
	c.globals[g] = o
	c.initGlobal(g, o)
	return o
}

type initEval struct {
	c    *Ctx
	fn   *ssa.Function
	fr   *frame
	done map[ssa.Value]bool
	busy map[ssa.Value]bool
}

func (c *Ctx) initGlobal(g *ssa.Global, o *Object) {
	if g.Pkg == nil {
		return
	}
	initFn := g.Pkg.Func("init")
	if initFn == nil || len(initFn.Blocks) == 0 {
		return
	}
	fi := c.infoFor(initFn)
	ev := &initEval{c: c, fn: initFn, fr: &frame{fn: initFn, info: fi, regs: make([]Value, fi.n)},
		done: map[ssa.Value]bool{}, busy: map[ssa.Value]bool{}}
	saved := c.cur
	c.cur = ev.fr
	defer func() { c.cur = saved }()
	for _, b := range initFn.Blocks {
		for _, in := range b.Instrs {
			if st, ok := in.(*ssa.Store); ok && rootOf(st.Addr) == ssa.Value(g) {
				ev.eval(st.Val)
				ev.eval(st.Addr)
				c.store(c.get(ev.fr, st.Addr).(PtrV), c.get(ev.fr, st.Val))
			}
			// map/slice element initialisation of a global: m[k] = v where m was loaded from g is not handled
		}
	}
}

// rootOf follows FieldAddr/IndexAddr chains to the base address.
func rootOf(v ssa.Value) ssa.Value {
	for {
		switch x := v.(type) {
		case *ssa.FieldAddr:
			v = x.X
		case *ssa.IndexAddr:
			v = x.X
		default:
			return v
		}
	}
}

// eval executes the instruction defining v (and, recursively, its operands) inside the init frame.
func (ev *initEval) eval(v ssa.Value) {
	c := ev.c
	switch v.(type) {
	case *ssa.Const, *ssa.Global, *ssa.Function, *ssa.Builtin:
		return
	}
	if ev.done[v] {
		return
	}
	if ev.busy[v] {
		c.unsupported("cyclic initialiser")
	}
	in, ok := v.(ssa.Instruction)
	if !ok {
		c.unsupported(fmt.Sprintf("initialiser operand %T", v))
	}
	ev.busy[v] = true
	if _, isPhi := v.(*ssa.Phi); isPhi {
		c.unsupported("phi in package initialiser of " + ev.fn.Pkg.Pkg.Path())
	}
	var ops []*ssa.Value
	ops = in.Operands(ops)
	for _, op := range ops {
		if *op != nil {
			ev.eval(*op)
		}
	}
	c.exec(ev.fr, in)
	ev.done[v] = true
	// an allocation (or make) is followed by the stores/updates that fill it
	switch v.(type) {
	case *ssa.Alloc, *ssa.MakeMap, *ssa.MakeSlice:
		for _, b := range ev.fn.Blocks {
			for _, in2 := range b.Instrs {
				switch st := in2.(type) {
				case *ssa.Store:
					if rootOf(st.Addr) == v {
						ev.eval(st.Val)
						ev.eval(st.Addr)
						c.store(c.get(ev.fr, st.Addr).(PtrV), c.get(ev.fr, st.Val))
					}
				case *ssa.MapUpdate:
					if st.Map == v {
						ev.eval(st.Key)
						ev.eval(st.Value)
						c.mapUpdate(c.get(ev.fr, st.Map).(*MapV), c.get(ev.fr, st.Key), c.get(ev.fr, st.Value))
					}
				}
			}
		}
	}
}
