package main

import (
	"go/types"

	"golang.org/x/tools/go/ssa"
)

// ReflectV is the engine's opaque model of a reflect.Value (only Kind/IsNil/IsValid are supported).
type ReflectV struct{ iv IfaceV }

func kindOf(t types.Type) uint64 {
	switch u := under(t).(type) {
	case *types.Basic:
		switch u.Kind() {
		case types.Bool:
			return 1
		case types.Int:
			return 2
		case types.Int8:
			return 3
		case types.Int16:
			return 4
		case types.Int32:
			return 5
		case types.Int64:
			return 6
		case types.Uint:
			return 7
		case types.Uint8:
			return 8
		case types.Uint16:
			return 9
		case types.Uint32:
			return 10
		case types.Uint64:
			return 11
		case types.Uintptr:
			return 12
		case types.Float32:
			return 13
		case types.Float64:
			return 14
		case types.String:
			return 24
		case types.UnsafePointer:
			return 26
		}
	case *types.Array:
		return 17
	case *types.Chan:
		return 18
	case *types.Signature:
		return 19
	case *types.Interface:
		return 20
	case *types.Map:
		return 21
	case *types.Pointer:
		return 22
	case *types.Slice:
		return 23
	case *types.Struct:
		return 25
	}
	return 0
}

func isNilValue(v Value) (bool, bool) {
	switch x := v.(type) {
	case PtrV:
		return x.obj == nil, true
	case SliceV:
		return x.isNil(), true
	case *MapV:
		return x == nil, true
	case *ChanV:
		return x == nil, true
	case *ClosureV:
		return x == nil, true
	case IfaceV:
		return x.t == nil, true
	}
	return false, false
}

func init() {
	intrinsics["reflect.ValueOf"] = func(c *Ctx, fn *ssa.Function, a []Value) Value {
		return ReflectV{iv: a[0].(IfaceV)}
	}
	intrinsics["(reflect.Value).IsValid"] = func(c *Ctx, fn *ssa.Function, a []Value) Value {
		return c.tb.Bool(a[0].(ReflectV).iv.t != nil)
	}
	intrinsics["(reflect.Value).Kind"] = func(c *Ctx, fn *ssa.Function, a []Value) Value {
		rv := a[0].(ReflectV)
		if rv.iv.t == nil {
			return c.tb.Const(0, 64)
		}
		return c.tb.Const(kindOf(rv.iv.t), 64)
	}
	intrinsics["(reflect.Value).IsNil"] = func(c *Ctx, fn *ssa.Function, a []Value) Value {
		rv := a[0].(ReflectV)
		if rv.iv.t == nil {
			c.goPanic("reflect: call of reflect.Value.IsNil on zero Value", nil)
		}
		n, ok := isNilValue(rv.iv.v)
		if !ok {
			c.goPanic("reflect: call of reflect.Value.IsNil on non-nillable value", nil)
		}
		return c.tb.Bool(n)
	}
	intrinsics["reflect.TypeOf"] = func(c *Ctx, fn *ssa.Function, a []Value) Value {
		iv := a[0].(IfaceV)
		if iv.t == nil {
			return IfaceV{}
		}
		return c.reflectType(iv.t)
	}
	intrinsics["reflect.TypeFor"] = func(c *Ctx, fn *ssa.Function, a []Value) Value {
		return c.reflectType(fn.TypeArgs()[0])
	}
	intrinsics["reflect.TypeFor_unused"] = func(c *Ctx, fn *ssa.Function, a []Value) Value {
		t := fn.TypeArgs()[0]
		obj := &NativeObj{name: "reflect.Type(" + t.String() + ")", methods: map[string]func(c *Ctx, args []Value) Value{
			"Kind": func(c *Ctx, args []Value) Value { return c.tb.Const(kindOf(t), 64) },
			"String": func(c *Ctx, args []Value) Value { return c.strConst(t.String()) },
		}}
		return IfaceV{t: c.shared.errType, v: obj}
	}
}

func (c *Ctx) reflectType(t types.Type) Value {
	name, pkg := "", ""
	if n, ok := unalias(t).(*types.Named); ok {
		name = n.Obj().Name()
		if n.Obj().Pkg() != nil {
			pkg = n.Obj().Pkg().Path()
		}
	} else if b, ok := unalias(t).(*types.Basic); ok {
		name = b.Name()
	}
	obj := &NativeObj{name: "reflect.Type(" + t.String() + ")", methods: map[string]func(c *Ctx, args []Value) Value{
		"Kind":    func(c *Ctx, args []Value) Value { return c.tb.Const(kindOf(t), 64) },
		"String":  func(c *Ctx, args []Value) Value { return c.strConst(types.TypeString(t, func(p *types.Package) string { return p.Name() })) },
		"Name":    func(c *Ctx, args []Value) Value { return c.strConst(name) },
		"PkgPath": func(c *Ctx, args []Value) Value { return c.strConst(pkg) },
	}}
	return IfaceV{t: c.shared.errType, v: obj}
}
