package main

import (
	"fmt"
	"go/types"

	"golang.org/x/tools/go/ssa"
)

func (c *Ctx) intConst(v int) *Term { return c.tb.Const(uint64(int64(v)), 64) }

func (c *Ctx) callBuiltin(b *ssa.Builtin, args []Value, cc *ssa.CallCommon) Value {
	switch b.Name() {
	case "len":
		switch x := args[0].(type) {
		case StringV:
			return c.intConst(len(x.b))
		case SliceV:
			return c.intConst(x.len)
		case *MapV:
			if x == nil {
				return c.intConst(0)
			}
			return c.intConst(len(x.entries))
		case *ArrayV:
			return c.intConst(len(x.e))
		case PtrV: // *array
			return c.intConst(len(c.load(x).(*ArrayV).e))
		case *ChanV:
			if x == nil {
				return c.intConst(0)
			}
			return c.intConst(len(x.buf))
		}
	case "cap":
		switch x := args[0].(type) {
		case SliceV:
			return c.intConst(x.cap)
		case *ArrayV:
			return c.intConst(len(x.e))
		case *ChanV:
			if x == nil {
				return c.intConst(0)
			}
			return c.intConst(x.cap)
		case PtrV:
			return c.intConst(len(c.load(x).(*ArrayV).e))
		}
	case "append":
		s := args[0].(SliceV)
		var add []Value
		var elemT types.Type
		if cc != nil {
			elemT = under(cc.Args[0].Type()).(*types.Slice).Elem()
		}
		switch y := args[1].(type) {
		case SliceV:
			add = c.sliceElems(y)
		case StringV:
			for _, t := range y.b {
				add = append(add, t)
			}
		}
		return c.appendSlice(s, add, elemT)
	case "copy":
		dst := args[0].(SliceV)
		var src []Value
		switch y := args[1].(type) {
		case SliceV:
			src = c.sliceElems(y)
		case StringV:
			for _, t := range y.b {
				src = append(src, t)
			}
		}
		n := min(dst.len, len(src))
		if n > 0 {
			// copy semantics handle overlap (memmove): snapshot source first
			tmp := make([]Value, n)
			copy(tmp, src[:n])
			a := c.load(dst.base).(*ArrayV)
			ne := make([]Value, len(a.e))
			copy(ne, a.e)
			copy(ne[dst.off:dst.off+n], tmp)
			c.store(dst.base, &ArrayV{e: ne})
		}
		return c.intConst(n)
	case "delete":
		m := args[0].(*MapV)
		if m != nil {
			c.mapDelete(m, args[1])
		}
		return nil
	case "clear":
		switch x := args[0].(type) {
		case *MapV:
			if x != nil {
				x.entries = nil
			}
		case SliceV:
			if x.len > 0 {
				a := c.load(x.base).(*ArrayV)
				ne := make([]Value, len(a.e))
				copy(ne, a.e)
				z := c.zero(under(cc.Args[0].Type()).(*types.Slice).Elem())
				for i := 0; i < x.len; i++ {
					ne[x.off+i] = z
				}
				c.store(x.base, &ArrayV{e: ne})
			}
		}
		return nil
	case "min", "max":
		t := cc.Args[0].Type()
		r := args[0]
		for _, a := range args[1:] {
			if f, ok := r.(FloatV); ok {
				g := a.(FloatV)
				if (b.Name() == "min") == (g.f < f.f) {
					r = g
				}
				continue
			}
			if s, ok := r.(StringV); ok {
				_ = s
				c.unsupported("min/max on strings")
			}
			x, y := r.(*Term), a.(*Term)
			_, signed, _ := isInt(t)
			var lt *Term
			if signed {
				lt = c.tb.Cmp(OpBvSlt, y, x)
			} else {
				lt = c.tb.Cmp(OpBvUlt, y, x)
			}
			if b.Name() == "min" {
				r = c.tb.Ite(lt, y, x)
			} else {
				r = c.tb.Ite(lt, x, y)
			}
		}
		return r
	case "panic":
		panic(&goPanicSig{val: args[0], msg: c.describePanic(args[0])})
	case "recover":
		// recover is only effective when called directly by a deferred function while panicking
		fr := c.cur
		if fr != nil && fr.caller != nil && fr.caller.panicking != nil {
			p := fr.caller.panicking
			fr.caller.panicking = nil
			fr.caller.recovered = true
			return p.val
		}
		return IfaceV{}
	case "print", "println":
		return nil
	case "close":
		ch := args[0].(*ChanV)
		if ch == nil {
			c.goPanic("close of nil channel", nil)
		}
		if ch.closed {
			c.goPanic("close of closed channel", nil)
		}
		ch.closed = true
		return nil
	case "String", "Slice", "SliceData", "StringData":
		if v, ok := c.unsafeBuiltin(b.Name(), args); ok {
			return v
		}
	case "Sizeof", "Alignof":
		// only reaches here for operands whose type is a type parameter; the instantiation is concrete
		if cc != nil && len(cc.Args) == 1 {
			t := cc.Args[0].Type()
			if b.Name() == "Sizeof" {
				return c.tb.Const(uint64(c.shared.sizes.Sizeof(t)), 64)
			}
			return c.tb.Const(uint64(c.shared.sizes.Alignof(t)), 64)
		}
	case "ssa:wrapnilchk":
		if p, ok := args[0].(PtrV); ok && p.obj == nil {
			c.goPanic("value method called using nil pointer", nil)
		}
		return args[0]
	}
	c.unsupported("builtin " + b.Name() + fmt.Sprintf(" on %T", args[0]))
	return nil
}

func (c *Ctx) appendSlice(s SliceV, add []Value, elemT types.Type) SliceV {
	if len(add) == 0 {
		return s
	}
	n := s.len + len(add)
	if n <= s.cap && !s.isNil() {
		a := c.load(s.base).(*ArrayV)
		ne := make([]Value, len(a.e))
		copy(ne, a.e)
		copy(ne[s.off+s.len:], add)
		c.store(s.base, &ArrayV{e: ne})
		return SliceV{base: s.base, off: s.off, len: n, cap: s.cap}
	}
	// grow: new backing array with exact capacity growth of Go is implementation-defined; use max(2*cap, n)
	ncap := max(2*s.cap, n)
	ne := make([]Value, ncap)
	copy(ne, c.sliceElems(s))
	copy(ne[s.len:], add)
	if elemT == nil {
		if s.base.obj != nil {
			elemT = under(c.typeOfPtr(s.base)).(*types.Array).Elem()
		}
	}
	if ncap > n {
		if elemT == nil {
			c.unsupported("append: unknown element type")
		}
		z := c.zero(elemT)
		for i := n; i < ncap; i++ {
			ne[i] = z
		}
	}
	var at types.Type
	if elemT != nil {
		at = types.NewArray(elemT, int64(ncap))
	}
	o := c.newObject(&ArrayV{e: ne}, at, "append")
	return SliceV{base: PtrV{obj: o}, off: 0, len: n, cap: ncap}
}

// typeOfPtr returns the static type of the location p points to.
func (c *Ctx) typeOfPtr(p PtrV) types.Type {
	t := p.obj.t
	for _, i := range p.path {
		switch u := under(t).(type) {
		case *types.Struct:
			t = u.Field(i).Type()
		case *types.Array:
			t = u.Elem()
		default:
			return nil
		}
	}
	return t
}

// ---------- maps ----------

// mapFind returns the index of the entry equal to key on this path (forking on aliasing), or -1.
func (c *Ctx) mapFind(m *MapV, key Value) int {
	if m == nil {
		return -1
	}
	if iv, ok := key.(IfaceV); ok && iv.t != nil && !types.Comparable(iv.t) {
		c.goPanic("hash of unhashable type "+iv.t.String(), nil)
	}
	var alts []*Term
	var idxs []int
	none := c.tb.tt
	for i, e := range m.entries {
		eq := c.eq(e.k, key)
		if eq.IsFalse() {
			continue
		}
		alts = append(alts, c.tb.And(none, eq))
		idxs = append(idxs, i)
		if eq.IsTrue() {
			none = c.tb.ff
			break
		}
		none = c.tb.And(none, c.tb.Not(eq))
	}
	if len(alts) == 0 {
		return -1
	}
	if len(alts) == 1 && alts[0].IsTrue() {
		return idxs[0]
	}
	alts = append(alts, none)
	idxs = append(idxs, -1)
	return idxs[c.choose(alts)]
}

func (c *Ctx) mapLookup(m *MapV, key Value) (Value, bool) {
	i := c.mapFind(m, key)
	if i < 0 {
		return nil, false
	}
	return m.entries[i].v, true
}

func (c *Ctx) mapUpdate(m *MapV, key, val Value) {
	i := c.mapFind(m, key)
	if i >= 0 {
		ne := make([]mapEntry, len(m.entries))
		copy(ne, m.entries)
		ne[i].v = val
		m.entries = ne
		return
	}
	ne := make([]mapEntry, len(m.entries), len(m.entries)+1)
	copy(ne, m.entries)
	m.entries = append(ne, mapEntry{key, val})
}

func (c *Ctx) mapDelete(m *MapV, key Value) {
	i := c.mapFind(m, key)
	if i < 0 {
		return
	}
	ne := make([]mapEntry, 0, len(m.entries))
	ne = append(ne, m.entries[:i]...)
	ne = append(ne, m.entries[i+1:]...)
	m.entries = ne
}

// ---------- range ----------

func (c *Ctx) rangeOp(fr *frame, x *ssa.Range) Value {
	v := c.get(fr, x.X)
	switch r := v.(type) {
	case StringV:
		return &IterV{isStr: true, str: r.b}
	case *MapV:
		it := &IterV{m: r}
		if r != nil {
			it.snap = r.entries
			for i := range r.entries {
				it.left = append(it.left, i)
			}
		}
		return it
	}
	panic(fmt.Sprintf("range over %T", v))
}

func (c *Ctx) nextOp(fr *frame, x *ssa.Next) Value {
	it := c.get(fr, x.Iter).(*IterV)
	if x.IsString {
		if it.pos >= len(it.str) {
			return TupleV{c.tb.ff, c.intConst(0), c.tb.Const(0, 32)}
		}
		b := it.str[it.pos]
		// ASCII fast path; non-ASCII symbolic bytes fork
		isASCII := c.tb.Cmp(OpBvUlt, b, c.tb.Const(0x80, 8))
		if !c.branch(isASCII) {
			c.unsupported("range over string with non-ASCII byte")
		}
		k := c.intConst(it.pos)
		it.pos++
		return TupleV{c.tb.tt, k, c.tb.Zext(b, 32)}
	}
	tt := x.Type().(*types.Tuple)
	for len(it.left) > 0 {
		var pick int
		if it.m.ordered && len(it.left) > 1 {
			alts := make([]*Term, len(it.left))
			for i := range alts {
				alts[i] = c.tb.tt
			}
			pick = c.chooseAll(len(it.left))
		}
		idx := it.left[pick]
		it.left = append(append([]int{}, it.left[:pick]...), it.left[pick+1:]...)
		e := it.snap[idx]
		// Go semantics: an entry removed during iteration is not produced. Check the entry is still present
		// (by identity of the key value in the current entries).
		present := false
		var cur Value
		for _, ce := range it.m.entries {
			if sameValueIdentity(ce.k, e.k) {
				present = true
				cur = ce.v
				break
			}
		}
		if !present {
			continue
		}
		return TupleV{c.tb.tt, e.k, cur}
	}
	var kz, vz Value
	if tt.At(1).Type() != nil {
		kz = c.zeroOrNil(tt.At(1).Type())
	}
	vz = c.zeroOrNil(tt.At(2).Type())
	return TupleV{c.tb.ff, kz, vz}
}

func (c *Ctx) zeroOrNil(t types.Type) Value {
	if b, ok := t.(*types.Basic); ok && b.Kind() == types.Invalid {
		return nil
	}
	return c.zero(t)
}

// sameValueIdentity: cheap structural identity (same term objects) used for map snapshot bookkeeping.
func sameValueIdentity(a, b Value) bool {
	switch x := a.(type) {
	case *Term:
		y, ok := b.(*Term)
		return ok && x == y
	case StringV:
		y, ok := b.(StringV)
		if !ok || len(x.b) != len(y.b) {
			return false
		}
		for i := range x.b {
			if x.b[i] != y.b[i] {
				return false
			}
		}
		return true
	case *StructV:
		y, ok := b.(*StructV)
		if !ok || len(x.f) != len(y.f) {
			return false
		}
		for i := range x.f {
			if !sameValueIdentity(x.f[i], y.f[i]) {
				return false
			}
		}
		return true
	case *ArrayV:
		y, ok := b.(*ArrayV)
		if !ok || len(x.e) != len(y.e) {
			return false
		}
		for i := range x.e {
			if !sameValueIdentity(x.e[i], y.e[i]) {
				return false
			}
		}
		return true
	case PtrV:
		y, ok := b.(PtrV)
		return ok && samePtr(x, y)
	case IfaceV:
		y, ok := b.(IfaceV)
		if !ok {
			return false
		}
		if x.t == nil || y.t == nil {
			return x.t == nil && y.t == nil
		}
		return types.Identical(x.t, y.t) && sameValueIdentity(x.v, y.v)
	case FloatV:
		y, ok := b.(FloatV)
		return ok && x.f == y.f
	}
	return false
}

// ---------- channels (single goroutine: buffered queues only) ----------

func (c *Ctx) chanSend(ch *ChanV, v Value) {
	if ch == nil {
		c.unsupported("send on nil channel (blocks forever)")
	}
	if ch.closed {
		c.goPanic("send on closed channel", nil)
	}
	if len(ch.buf) >= ch.cap {
		c.unsupported("send on full/unbuffered channel would block")
	}
	ch.buf = append(append([]Value{}, ch.buf...), v)
}

func (c *Ctx) chanRecv(ch *ChanV, elem types.Type) (Value, bool) {
	if ch == nil {
		c.unsupported("receive on nil channel (blocks forever)")
	}
	if len(ch.buf) > 0 {
		v := ch.buf[0]
		ch.buf = ch.buf[1:]
		return v, true
	}
	if ch.closed {
		return c.zero(elem), false
	}
	if ch.onBlock != nil {
		ch.onBlock()
		if ch.closed {
			return c.zero(elem), false
		}
	}
	c.unsupported("receive on empty channel would block")
	return nil, false
}

func (c *Ctx) selectOp(fr *frame, x *ssa.Select) Value {
	// result tuple: (index int, recvOk bool, r_0 T_0, ... r_n-1 T_n-1) for receive states
	var recvTypes []types.Type
	for _, st := range x.States {
		if st.Dir == types.RecvOnly {
			recvTypes = append(recvTypes, under(st.Chan.Type()).(*types.Chan).Elem())
		}
	}
	mk := func(idx int, ok bool, recvIdx int, val Value) Value {
		tv := TupleV{c.intConst(idx), c.tb.Bool(ok)}
		for i, rt := range recvTypes {
			if i == recvIdx {
				tv = append(tv, val)
			} else {
				tv = append(tv, c.zero(rt))
			}
		}
		return tv
	}
	// ready states in order (deterministic choice of the first ready one is an under-approximation of Go's
	// random choice; if more than one is ready we fork over all of them)
	var ready []int
	for i, st := range x.States {
		ch, _ := c.get(fr, st.Chan).(*ChanV)
		if ch == nil {
			continue
		}
		if st.Dir == types.SendOnly {
			if ch.closed || len(ch.buf) < ch.cap {
				ready = append(ready, i)
			}
		} else if len(ch.buf) > 0 || ch.closed {
			ready = append(ready, i)
		}
	}
	if len(ready) == 0 {
		if !x.Blocking {
			return mk(-1, false, -1, nil)
		}
		for i, st := range x.States {
			ch, _ := c.get(fr, st.Chan).(*ChanV)
			if ch != nil && ch.onBlock != nil && st.Dir == types.RecvOnly {
				ch.onBlock()
				if ch.closed {
					ready = append(ready, i)
					break
				}
			}
		}
		if len(ready) == 0 {
			c.unsupported("blocking select with no ready case")
		}
	}
	pick := ready[0]
	if len(ready) > 1 {
		pick = ready[c.chooseAll(len(ready))]
	}
	st := x.States[pick]
	ch := c.get(fr, st.Chan).(*ChanV)
	if st.Dir == types.SendOnly {
		c.chanSend(ch, c.get(fr, st.Send))
		return mk(pick, false, -1, nil)
	}
	ri := 0
	for i := 0; i < pick; i++ {
		if x.States[i].Dir == types.RecvOnly {
			ri++
		}
	}
	v, ok := c.chanRecv(ch, recvTypes[ri])
	return mk(pick, ok, ri, v)
}
