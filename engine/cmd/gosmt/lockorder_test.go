package main

import "testing"

func edge(from, to string, fromRead, read bool, held map[string]bool) lockEdge {
	h := map[string]bool{from: fromRead}
	for k, v := range held {
		h[k] = v
	}
	return lockEdge{From: from, To: to, FromRead: fromRead, Read: read, Held: h, Where: " <- t"}
}

func TestLockCycles(t *testing.T) {
	// plain inversion of two exclusive locks
	s := &Shared{}
	s.addLockEdge(edge("A", "B", false, false, nil))
	s.addLockEdge(edge("B", "A", false, false, nil))
	if n := len(s.lockCycles()); n != 1 {
		t.Fatalf("W/W inversion: want 1 cycle, got %d", n)
	}
	// no inversion
	s = &Shared{}
	s.addLockEdge(edge("A", "B", false, false, nil))
	s.addLockEdge(edge("A", "C", false, false, nil))
	if n := len(s.lockCycles()); n != 0 {
		t.Fatalf("no inversion: want 0 cycles, got %d", n)
	}
	// readers(R) -> writers(W) against writers(R) -> readers(R): a queued writer on readers makes it a deadlock
	// unless every exclusive acquisition of readers is gated by a lock the waiting thread holds
	s = &Shared{}
	s.addLockEdge(edge("readers", "writers", true, false, nil))
	s.addLockEdge(edge("writers", "readers", true, true, nil))
	s.noteWriteAcquire("readers", map[string]bool{})
	if n := len(s.lockCycles()); n != 1 {
		t.Fatalf("R/R with an ungated writer: want 1 cycle, got %d", n)
	}
	// the same shape on a per-file lock whose exclusive acquisitions all happen under gate(W), both threads
	// holding gate(R): the read request can never wait
	s = &Shared{}
	s.addLockEdge(edge("writers", "file", true, true, map[string]bool{"gate": true}))
	s.addLockEdge(edge("file", "writers", true, false, map[string]bool{"gate": true}))
	s.noteWriteAcquire("file", map[string]bool{"gate": false})
	if n := len(s.lockCycles()); n != 0 {
		t.Fatalf("write-gated read lock: want 0 cycles, got %d", n)
	}
	// a lock held exclusively by one of the two sections serialises them
	s = &Shared{}
	s.addLockEdge(edge("A", "B", false, false, map[string]bool{"G": false}))
	s.addLockEdge(edge("B", "A", false, false, map[string]bool{"G": true}))
	if n := len(s.lockCycles()); n != 0 {
		t.Fatalf("common exclusive gate: want 0 cycles, got %d", n)
	}
	// the gate must hold at every occurrence of the edge
	s = &Shared{}
	s.addLockEdge(edge("A", "B", false, false, map[string]bool{"G": false}))
	s.addLockEdge(edge("A", "B", false, false, nil))
	s.addLockEdge(edge("B", "A", false, false, map[string]bool{"G": false}))
	if n := len(s.lockCycles()); n != 1 {
		t.Fatalf("gate missing at one occurrence: want 1 cycle, got %d", n)
	}
}
