package main

import (
	"fmt"
	"go/constant"
	"go/token"
	"go/types"
	"math"
	"strings"

	"golang.org/x/tools/go/ssa"
)

// ---------- path control signals (Go panics inside the engine) ----------

// pathEnd terminates the current path (not a Go-level panic of the code under test).
type pathEnd struct {
	status string // "assume", "infeasible", "unsupported", "unwind", "budget", "lock-misuse", "done"
	msg    string
}

// goPanicSig is a panic of the program under test.
type goPanicSig struct {
	val     Value // the panic value (IfaceV)
	msg     string
	runtime bool
	at      string // call chain of the code under test where a runtime panic was raised (diagnostics)
}

type deferred struct {
	fn   Value
	args []Value
	// invoke mode
	invoke *types.Func
	recv   Value
}

type frame struct {
	fn        *ssa.Function
	info      *fnInfo
	regs      []Value
	env       []Value
	defers    []deferred
	block     *ssa.BasicBlock
	prev      *ssa.BasicBlock
	backEdges map[int]int
	panicking *goPanicSig
	recovered bool
	caller    *frame
	result    Value
}

type fnInfo struct {
	idx map[ssa.Value]int
	n   int
}

func (c *Ctx) infoFor(fn *ssa.Function) *fnInfo {
	if fi, ok := c.shared.fnInfos.Load(fn); ok {
		return fi.(*fnInfo)
	}
	fi := &fnInfo{idx: map[ssa.Value]int{}}
	for _, p := range fn.Params {
		fi.idx[p] = fi.n
		fi.n++
	}
	for _, p := range fn.FreeVars {
		fi.idx[p] = fi.n
		fi.n++
	}
	for _, b := range fn.Blocks {
		for _, in := range b.Instrs {
			if v, ok := in.(ssa.Value); ok {
				fi.idx[v] = fi.n
				fi.n++
			}
		}
	}
	c.shared.fnInfos.Store(fn, fi)
	return fi
}

func (c *Ctx) unsupported(msg string) {
	panic(pathEnd{"unsupported", msg + " @" + c.where()})
}

func (c *Ctx) goPanic(msg string, val Value) {
	if val == nil {
		val = IfaceV{t: c.shared.errType, v: &ErrV{msg: "runtime error: " + msg, id: c.newErrID()}}
	}
	panic(&goPanicSig{val: val, msg: msg, runtime: true, at: c.where()})
}

// ---------- operand evaluation ----------

func (c *Ctx) get(fr *frame, v ssa.Value) Value {
	switch x := v.(type) {
	case *ssa.Const:
		return c.constValue(x)
	case *ssa.Global:
		return PtrV{obj: c.globalObj(x)}
	case *ssa.Function:
		return &ClosureV{fn: x}
	case *ssa.Builtin:
		return &ClosureV{builtin: x}
	}
	i, ok := fr.info.idx[v]
	if !ok {
		panic(fmt.Sprintf("get: unknown value %s (%T) in %s", v.Name(), v, fr.fn))
	}
	return fr.regs[i]
}

func (c *Ctx) set(fr *frame, v ssa.Value, val Value) {
	fr.regs[fr.info.idx[v]] = val
}

func (c *Ctx) constValue(k *ssa.Const) Value {
	t := k.Type()
	if k.Value == nil {
		return c.zero(t)
	}
	switch u := under(t).(type) {
	case *types.Basic:
		if u.Info()&types.IsBoolean != 0 {
			return c.tb.Bool(constant.BoolVal(k.Value))
		}
		if n, signed, ok := intBits(u); ok {
			val := constant.ToInt(k.Value)
			if signed {
				i, _ := constant.Int64Val(val)
				return c.tb.Const(uint64(i), n)
			}
			i, _ := constant.Uint64Val(val)
			return c.tb.Const(i, n)
		}
		if u.Info()&types.IsString != 0 {
			return c.strConst(constant.StringVal(k.Value))
		}
		if u.Info()&types.IsFloat != 0 {
			f, _ := constant.Float64Val(k.Value)
			if u.Kind() == types.Float32 {
				return FloatV{float64(float32(f)), 32}
			}
			return FloatV{f, 64}
		}
	case *types.Interface:
		// constant of type param? not expected
	}
	c.unsupported("constant of type " + t.String())
	return nil
}

// ---------- calls ----------

func (c *Ctx) callValue(fv Value, args []Value, site ssa.Instruction) Value {
	cl, ok := fv.(*ClosureV)
	if !ok || cl == nil {
		c.goPanic("call of nil func", nil)
	}
	if cl.native != nil {
		return cl.native(c, args)
	}
	if cl.builtin != nil {
		return c.callBuiltin(cl.builtin, args, nil)
	}
	return c.callFn(cl.fn, args, cl.env)
}

func fnKey(fn *ssa.Function) string {
	if o := fn.Origin(); o != nil {
		return o.String()
	}
	return fn.String()
}

func (c *Ctx) callFn(fn *ssa.Function, args []Value, env []Value) Value {
	key := fnKey(fn)
	// harness API
	if fn.Pkg != nil || fn.Origin() != nil {
		name := fn.Name()
		if strings.HasPrefix(name, "verif") && fn.Signature.Recv() == nil {
			if h, ok := verifAPI[name]; ok {
				return h(c, fn, args)
			}
		}
	}
	if r, ok := c.shared.redirects[key]; ok {
		c.noteFn("redirect:" + key + " -> " + r.String())
		fn = r
	} else if h, ok := intrinsics[key]; ok {
		c.noteFn("intrinsic:" + key)
		return h(c, fn, args)
	}
	if len(fn.Blocks) == 0 {
		c.unsupported("call to function without body: " + key)
	}
	c.noteFn(fn.String())
	if c.depth > c.shared.opts.MaxDepth {
		msg := "call depth " + fmt.Sprint(c.shared.opts.MaxDepth) + " exceeded (unbounded recursion?) @" + c.where()
		var vec []uint64
		if c.solver != nil {
			if c.solver.Check(nil, false) == Sat {
				vec = c.modelVector()
			}
			c.solver.EndCheck()
		} else {
			vec = c.concreteVec
		}
		c.reportViolation("recursion", "recursion:"+fn.String(), msg, vec, "")
		panic(pathEnd{"recursion", "call depth exceeded in " + fn.String()})
	}
	fi := c.infoFor(fn)
	fr := &frame{fn: fn, info: fi, regs: make([]Value, fi.n), env: env, caller: c.cur}
	for i, p := range fn.Params {
		fr.regs[fi.idx[p]] = args[i]
	}
	for i, p := range fn.FreeVars {
		fr.regs[fi.idx[p]] = env[i]
	}
	saved := c.cur
	c.cur = fr
	c.depth++
	defer func() {
		c.depth--
		c.cur = saved
	}()
	return c.runFrame(fr)
}

// runFrame executes a frame to completion, handling Go-level panics of the code under test.
func (c *Ctx) runFrame(fr *frame) (result Value) {
	defer func() {
		r := recover()
		if r == nil {
			return
		}
		gp, ok := r.(*goPanicSig)
		if !ok {
			if _, isEnd := r.(pathEnd); !isEnd && c.extra["internalWhere"] == nil {
				c.cur = fr
				c.extra["internalWhere"] = c.where()
			}
			panic(r) // pathEnd or engine bug
		}
		c.cur = fr
		// run deferred calls in panicking mode
		fr.panicking = gp
		for fr.panicking != nil || len(fr.defers) > 0 {
			if len(fr.defers) == 0 {
				break
			}
			d := fr.defers[len(fr.defers)-1]
			fr.defers = fr.defers[:len(fr.defers)-1]
			func() {
				defer func() {
					if r2 := recover(); r2 != nil {
						if gp2, ok := r2.(*goPanicSig); ok {
							// new panic replaces the old one
							fr.panicking = gp2
							fr.recovered = false
							return
						}
						panic(r2)
					}
				}()
				c.runDeferred(fr, d)
			}()
		}
		if fr.panicking != nil {
			panic(fr.panicking)
		}
		// recovered: return via Recover block or zero results
		if fr.fn.Recover != nil {
			fr.prev = nil
			fr.block = fr.fn.Recover
			result = c.execBlocks(fr)
			return
		}
		result = c.zeroResults(fr.fn)
	}()
	fr.block = fr.fn.Blocks[0]
	return c.execBlocks(fr)
}

func (c *Ctx) zeroResults(fn *ssa.Function) Value {
	res := fn.Signature.Results()
	switch res.Len() {
	case 0:
		return nil
	case 1:
		return c.zero(res.At(0).Type())
	}
	return c.zero(res)
}

func (c *Ctx) runDeferred(fr *frame, d deferred) {
	if d.invoke != nil {
		c.invoke(d.recv, d.invoke, d.args)
		return
	}
	c.callValue(d.fn, d.args, nil)
}

func (c *Ctx) execBlocks(fr *frame) Value {
	for {
		blk := fr.block
		next, done, ret := c.execBlock(fr, blk)
		if done {
			return ret
		}
		if next.Index <= blk.Index {
			if fr.backEdges == nil {
				fr.backEdges = map[int]int{}
			}
			fr.backEdges[next.Index]++
			if fr.backEdges[next.Index] > c.maxUnwindSeen {
				c.maxUnwindSeen = fr.backEdges[next.Index]
			}
			if fr.backEdges[next.Index] > c.unwind && !c.isHarnessFn(fr.fn) { // harness oracles are bounded by construction (instruction budget still applies)
				msg := fmt.Sprintf("loop in %s block %d exceeded unwind %d", fr.fn, next.Index, c.unwind)
				var vec []uint64
				if c.solver != nil {
					if c.solver.Check(nil, false) == Sat {
						vec = c.modelVector()
					}
					c.solver.EndCheck()
				} else {
					vec = c.concreteVec
				}
				c.reportViolation("unwind", "unwind:"+fr.fn.String(), msg, vec, "")
				panic(pathEnd{"unwind", msg})
			}
		}
		fr.prev = blk
		fr.block = next
	}
}

func (c *Ctx) execBlock(fr *frame, blk *ssa.BasicBlock) (next *ssa.BasicBlock, done bool, ret Value) {
	// phis first (parallel assignment)
	nphi := 0
	for _, in := range blk.Instrs {
		if _, ok := in.(*ssa.Phi); ok {
			nphi++
		} else {
			break
		}
	}
	if nphi > 0 {
		predIdx := -1
		for i, p := range blk.Preds {
			if p == fr.prev {
				predIdx = i
				break
			}
		}
		if predIdx < 0 {
			panic("phi: predecessor not found")
		}
		vals := make([]Value, nphi)
		for i := 0; i < nphi; i++ {
			vals[i] = c.get(fr, blk.Instrs[i].(*ssa.Phi).Edges[predIdx])
		}
		for i := 0; i < nphi; i++ {
			c.set(fr, blk.Instrs[i].(*ssa.Phi), vals[i])
		}
	}
	for _, in := range blk.Instrs[nphi:] {
		c.nInstr++
		if c.nInstr > c.instrBudget {
			panic(pathEnd{"budget", "instruction budget exceeded"})
		}
		switch x := in.(type) {
		case *ssa.If:
			cond := c.get(fr, x.Cond).(*Term)
			if c.branch(cond) {
				return blk.Succs[0], false, nil
			}
			return blk.Succs[1], false, nil
		case *ssa.Jump:
			return blk.Succs[0], false, nil
		case *ssa.Return:
			var r Value
			switch len(x.Results) {
			case 0:
			case 1:
				r = c.get(fr, x.Results[0])
			default:
				tv := make(TupleV, len(x.Results))
				for i, rv := range x.Results {
					tv[i] = c.get(fr, rv)
				}
				r = tv
			}
			return nil, true, r
		case *ssa.Panic:
			v := c.get(fr, x.X)
			panic(&goPanicSig{val: v, msg: c.describePanic(v)})
		case *ssa.RunDefers:
			for len(fr.defers) > 0 {
				d := fr.defers[len(fr.defers)-1]
				fr.defers = fr.defers[:len(fr.defers)-1]
				c.runDeferred(fr, d)
			}
		default:
			c.exec(fr, in)
		}
	}
	panic("block without terminator")
}

func (c *Ctx) describePanic(v Value) string {
	if iv, ok := v.(IfaceV); ok {
		switch x := iv.v.(type) {
		case StringV:
			if s, ok := x.concrete(); ok {
				return s
			}
			return "<symbolic string>"
		case *ErrV:
			return x.msg
		}
		if iv.t != nil {
			return "panic value of type " + iv.t.String()
		}
	}
	return "panic"
}

// ---------- instructions ----------

func (c *Ctx) exec(fr *frame, in ssa.Instruction) {
	switch x := in.(type) {
	case *ssa.DebugRef:
	case *ssa.Alloc:
		t := x.Type().(*types.Pointer).Elem()
		o := c.newObject(c.zero(t), t, x.Comment)
		o.allocFn = fr.fn
		c.set(fr, x, PtrV{obj: o})
	case *ssa.UnOp:
		c.set(fr, x, c.unop(fr, x))
	case *ssa.BinOp:
		c.set(fr, x, c.binop(x.Op, c.get(fr, x.X), c.get(fr, x.Y), x.X.Type(), x.Y.Type()))
	case *ssa.Store:
		if g, ok := x.Addr.(*ssa.Global); ok {
			if _, seen := c.globals[g]; !seen {
				// whole-variable overwrite before any read: the real initialiser is never evaluated
				t := g.Type().(*types.Pointer).Elem()
				c.globals[g] = c.newObject(c.zero(t), t, g.String())
			}
		}
		p := c.get(fr, x.Addr).(PtrV)
		c.checkGuard(p, true)
		c.store(p, c.get(fr, x.Val))
	case *ssa.FieldAddr:
		p := c.get(fr, x.X).(PtrV)
		if p.obj == nil {
			c.goPanic("nil pointer dereference (field address)", nil)
		}
		c.set(fr, x, p.sub(x.Field))
	case *ssa.Field:
		s := c.get(fr, x.X).(*StructV)
		c.set(fr, x, s.f[x.Field])
	case *ssa.IndexAddr:
		c.set(fr, x, c.indexAddr(fr, x))
	case *ssa.Index:
		c.set(fr, x, c.index(fr, x))
	case *ssa.Lookup:
		c.set(fr, x, c.lookup(fr, x))
	case *ssa.Slice:
		c.set(fr, x, c.sliceOp(fr, x))
	case *ssa.Call:
		c.set(fr, x, c.doCall(fr, &x.Call, x))
	case *ssa.Defer:
		c.doDefer(fr, x)
	case *ssa.Go:
		// the only tolerated go statement: observe.(*base).GoNotify, executed as a synchronous Notify
		if o := fr.fn.Origin(); (o != nil && o.String() == "(*github.com/synnaxlabs/x/observe.base).GoNotify") ||
			strings.HasPrefix(fr.fn.String(), "(*github.com/synnaxlabs/x/observe.base[") && strings.HasSuffix(fr.fn.String(), ").GoNotify") {
			c.noteFn("intrinsic:go-as-sync-call in " + fnKey(fr.fn))
			c.goDepth++
			c.doCall(fr, &x.Call, x)
			c.goDepth--
			return
		}
		c.unsupported("go statement")
	case *ssa.Extract:
		c.set(fr, x, c.get(fr, x.Tuple).(TupleV)[x.Index])
	case *ssa.MakeInterface:
		c.set(fr, x, IfaceV{t: x.X.Type(), v: c.get(fr, x.X)})
	case *ssa.ChangeInterface:
		c.set(fr, x, c.get(fr, x.X))
	case *ssa.ChangeType:
		c.set(fr, x, c.get(fr, x.X))
	case *ssa.Convert:
		c.set(fr, x, c.convert(c.get(fr, x.X), x.X.Type(), x.Type()))
	case *ssa.MultiConvert:
		c.set(fr, x, c.convert(c.get(fr, x.X), x.X.Type(), x.Type()))
	case *ssa.TypeAssert:
		c.set(fr, x, c.typeAssert(fr, x))
	case *ssa.MakeClosure:
		env := make([]Value, len(x.Bindings))
		for i, b := range x.Bindings {
			env[i] = c.get(fr, b)
		}
		c.set(fr, x, &ClosureV{fn: x.Fn.(*ssa.Function), env: env})
	case *ssa.MakeSlice:
		elem := under(x.Type()).(*types.Slice).Elem()
		lenT, capT := c.indexTerm(c.get(fr, x.Len), x.Len.Type()), c.indexTerm(c.get(fr, x.Cap), x.Cap.Type())
		c.trackAlloc(capT, elem)
		var n, cp int64
		if c.allocTracking && !capT.IsConst() && c.branch(c.tb.Cmp(OpBvSlt, c.tb.Const(uint64(c.maxAlloc), 64), capT)) {
			// Abstraction, only while a harness measures allocation sizes (verifMaxAlloc): an allocation larger
			// than the engine cap is represented by cap+1 elements; its true size is kept in the tracked term.
			c.noteFn("intrinsic:large-allocation-abstracted-to-" + fmt.Sprint(c.maxAlloc+1) + "-elements")
			if lenT != capT {
				c.unsupported("large symbolic make with len != cap")
			}
			n, cp = c.maxAlloc+1, c.maxAlloc+1
		} else {
			if !capT.IsConst() && c.branch(c.tb.Cmp(OpBvSlt, c.tb.Const(uint64(c.maxAlloc), 64), capT)) {
				// a symbolic size above the enumeration cap: do not enumerate 2^k values
				c.unsupported(fmt.Sprintf("make slice with symbolic size above the enumeration cap %d", c.maxAlloc))
			}
			n = c.concretizeInt(lenT, "make-slice-len")
			cp = c.concretizeInt(capT, "make-slice-cap")
			if n < 0 || cp < n {
				c.goPanic("makeslice: len out of range", nil)
			}
			if cp > 1<<20 {
				c.unsupported(fmt.Sprintf("make slice of %d elements exceeds engine hard cap", cp))
			}
		}
		o := c.newArrayObj(elem, int(cp))
		c.set(fr, x, SliceV{base: PtrV{obj: o}, off: 0, len: int(n), cap: int(cp)})
	case *ssa.MakeMap:
		mt := under(x.Type()).(*types.Map)
		c.nextObj++
		c.set(fr, x, &MapV{id: c.nextObj, kt: mt.Key(), vt: mt.Elem()})
	case *ssa.MakeChan:
		n := c.concretizeInt(c.get(fr, x.Size).(*Term), "make-chan-size")
		c.nextObj++
		c.set(fr, x, &ChanV{id: c.nextObj, cap: int(n)})
	case *ssa.MapUpdate:
		m := c.get(fr, x.Map).(*MapV)
		if m == nil {
			c.goPanic("assignment to entry in nil map", nil)
		}
		c.mapUpdate(m, c.get(fr, x.Key), c.get(fr, x.Value))
	case *ssa.Range:
		c.set(fr, x, c.rangeOp(fr, x))
	case *ssa.Next:
		c.set(fr, x, c.nextOp(fr, x))
	case *ssa.Send:
		ch := c.get(fr, x.Chan).(*ChanV)
		c.chanSend(ch, c.get(fr, x.X))
	case *ssa.Select:
		c.set(fr, x, c.selectOp(fr, x))
	case *ssa.SliceToArrayPointer:
		s := c.get(fr, x.X).(SliceV)
		n := int(under(x.Type().(*types.Pointer).Elem()).(*types.Array).Len())
		if s.len < n {
			c.goPanic("slice to array pointer: length mismatch", nil)
		}
		if s.isNil() {
			c.set(fr, x, PtrV{})
		} else {
			a := c.load(s.base).(*ArrayV)
			if s.off != 0 || len(a.e) != n {
				c.unsupported("slice-to-array-pointer window")
			}
			c.set(fr, x, s.base)
		}
	default:
		c.unsupported(fmt.Sprintf("instruction %T", in))
	}
}

func (c *Ctx) doCall(fr *frame, cc *ssa.CallCommon, site ssa.Instruction) Value {
	args := make([]Value, 0, len(cc.Args)+1)
	if cc.IsInvoke() {
		recv := c.get(fr, cc.Value)
		for _, a := range cc.Args {
			args = append(args, c.get(fr, a))
		}
		return c.invoke(recv, cc.Method, args)
	}
	for _, a := range cc.Args {
		args = append(args, c.get(fr, a))
	}
	switch f := cc.Value.(type) {
	case *ssa.Builtin:
		return c.callBuiltin(f, args, cc)
	case *ssa.Function:
		return c.callFn(f, args, nil)
	}
	return c.callValue(c.get(fr, cc.Value), args, site)
}

func (c *Ctx) doDefer(fr *frame, x *ssa.Defer) {
	cc := &x.Call
	var d deferred
	for _, a := range cc.Args {
		d.args = append(d.args, c.get(fr, a))
	}
	if cc.IsInvoke() {
		d.invoke = cc.Method
		d.recv = c.get(fr, cc.Value)
	} else {
		d.fn = c.get(fr, cc.Value)
	}
	fr.defers = append(fr.defers, d)
}

func (c *Ctx) invoke(recv Value, m *types.Func, args []Value) Value {
	iv, ok := recv.(IfaceV)
	if !ok {
		panic(fmt.Sprintf("invoke on %T", recv))
	}
	if iv.t == nil {
		c.goPanic("nil interface method call "+m.Name(), nil)
	}
	if ev, ok := iv.v.(*ErrV); ok {
		return c.errMethod(ev, m.Name(), args)
	}
	if nv, ok := iv.v.(*NativeObj); ok {
		return nv.call(c, m.Name(), args)
	}
	sel := c.shared.prog.MethodSets.MethodSet(iv.t).Lookup(m.Pkg(), m.Name())
	if sel == nil {
		c.unsupported("method " + m.Name() + " not found on " + iv.t.String())
	}
	fn := c.shared.prog.MethodValue(sel)
	if fn == nil {
		c.unsupported("abstract method " + m.Name() + " on " + iv.t.String())
	}
	return c.callFn(fn, append([]Value{iv.v}, args...), nil)
}

func (c *Ctx) unop(fr *frame, x *ssa.UnOp) Value {
	v := c.get(fr, x.X)
	switch x.Op {
	case token.MUL: // load
		p := v.(PtrV)
		eg := c.checkGuard(p, false)
		val := c.load(p)
		if eg != nil {
			if sv, ok := val.(SliceV); ok && sv.base.obj != nil {
				sv.base.obj.elemGuard = eg
			}
		}
		return val
	case token.NOT:
		return c.tb.Not(v.(*Term))
	case token.SUB:
		if f, ok := v.(FloatV); ok {
			return FloatV{-f.f, f.bits}
		}
		return c.tb.BvNeg(v.(*Term))
	case token.XOR:
		return c.tb.BvNot(v.(*Term))
	case token.ARROW:
		ch := v.(*ChanV)
		val, ok := c.chanRecv(ch, under(x.X.Type()).(*types.Chan).Elem())
		if x.CommaOk {
			return TupleV{val, c.tb.Bool(ok)}
		}
		return val
	}
	c.unsupported("unop " + x.Op.String())
	return nil
}

func (c *Ctx) binop(op token.Token, a, b Value, at, bt types.Type) Value {
	switch x := a.(type) {
	case *Term:
		y, ok := b.(*Term)
		if !ok {
			panic(fmt.Sprintf("binop %s: %T vs %T", op, a, b))
		}
		if x.sort.bits == 0 {
			switch op {
			case token.EQL:
				return c.tb.Eq(x, y)
			case token.NEQ:
				return c.tb.Not(c.tb.Eq(x, y))
			case token.AND, token.LAND:
				return c.tb.And(x, y)
			case token.OR, token.LOR:
				return c.tb.Or(x, y)
			}
			c.unsupported("bool binop " + op.String())
		}
		n, signed, _ := isInt(at)
		switch op {
		case token.ADD:
			return c.tb.Bin(OpBvAdd, x, y)
		case token.SUB:
			return c.tb.Bin(OpBvSub, x, y)
		case token.MUL:
			return c.tb.Bin(OpBvMul, x, y)
		case token.QUO, token.REM:
			if c.branch(c.tb.Eq(y, c.tb.Const(0, n))) {
				c.goPanic("integer divide by zero", nil)
			}
			if op == token.QUO {
				if signed {
					return c.tb.Bin(OpBvSDiv, x, y)
				}
				return c.tb.Bin(OpBvUDiv, x, y)
			}
			if signed {
				return c.tb.Bin(OpBvSRem, x, y)
			}
			return c.tb.Bin(OpBvURem, x, y)
		case token.AND:
			return c.tb.Bin(OpBvAnd, x, y)
		case token.OR:
			return c.tb.Bin(OpBvOr, x, y)
		case token.XOR:
			return c.tb.Bin(OpBvXor, x, y)
		case token.AND_NOT:
			return c.tb.Bin(OpBvAnd, x, c.tb.BvNot(y))
		case token.SHL, token.SHR:
			// shift count may have a different width and may be signed (negative panics)
			yn, ysigned, _ := isInt(bt)
			if ysigned {
				if c.branch(c.tb.Cmp(OpBvSlt, y, c.tb.Const(0, yn))) {
					c.goPanic("negative shift amount", nil)
				}
			}
			var cnt *Term
			var big *Term // count >= n
			if yn > n {
				big = c.tb.Not(c.tb.Cmp(OpBvUlt, y, c.tb.Const(uint64(n), yn)))
				cnt = c.tb.Extract(y, n-1, 0)
			} else {
				cnt = c.tb.Zext(y, n)
				big = c.tb.Not(c.tb.Cmp(OpBvUlt, cnt, c.tb.Const(uint64(n), n)))
			}
			var r *Term
			if op == token.SHL {
				r = c.tb.Ite(big, c.tb.Const(0, n), c.tb.Bin(OpBvShl, x, cnt))
			} else if signed {
				r = c.tb.Ite(big, c.tb.Bin(OpBvAshr, x, c.tb.Const(uint64(n-1), n)), c.tb.Bin(OpBvAshr, x, cnt))
			} else {
				r = c.tb.Ite(big, c.tb.Const(0, n), c.tb.Bin(OpBvLshr, x, cnt))
			}
			return r
		case token.EQL:
			return c.tb.Eq(x, y)
		case token.NEQ:
			return c.tb.Not(c.tb.Eq(x, y))
		case token.LSS:
			if signed {
				return c.tb.Cmp(OpBvSlt, x, y)
			}
			return c.tb.Cmp(OpBvUlt, x, y)
		case token.LEQ:
			if signed {
				return c.tb.Cmp(OpBvSle, x, y)
			}
			return c.tb.Cmp(OpBvUle, x, y)
		case token.GTR:
			if signed {
				return c.tb.Cmp(OpBvSlt, y, x)
			}
			return c.tb.Cmp(OpBvUlt, y, x)
		case token.GEQ:
			if signed {
				return c.tb.Cmp(OpBvSle, y, x)
			}
			return c.tb.Cmp(OpBvUle, y, x)
		}
		c.unsupported("int binop " + op.String())
	case FloatV:
		y := b.(FloatV)
		r := func(f float64) Value {
			if x.bits == 32 {
				return FloatV{float64(float32(f)), 32}
			}
			return FloatV{f, 64}
		}
		switch op {
		case token.ADD:
			return r(x.f + y.f)
		case token.SUB:
			return r(x.f - y.f)
		case token.MUL:
			return r(x.f * y.f)
		case token.QUO:
			return r(x.f / y.f)
		case token.EQL:
			return c.tb.Bool(x.f == y.f)
		case token.NEQ:
			return c.tb.Bool(x.f != y.f)
		case token.LSS:
			return c.tb.Bool(x.f < y.f)
		case token.LEQ:
			return c.tb.Bool(x.f <= y.f)
		case token.GTR:
			return c.tb.Bool(x.f > y.f)
		case token.GEQ:
			return c.tb.Bool(x.f >= y.f)
		}
		c.unsupported("float binop " + op.String())
	case StringV:
		y := b.(StringV)
		switch op {
		case token.ADD:
			nb := make([]*Term, 0, len(x.b)+len(y.b))
			nb = append(nb, x.b...)
			nb = append(nb, y.b...)
			return StringV{b: nb}
		case token.EQL:
			return c.eq(x, y)
		case token.NEQ:
			return c.tb.Not(c.eq(x, y))
		case token.LSS:
			return c.strLess(x, y, false)
		case token.LEQ:
			return c.strLess(x, y, true)
		case token.GTR:
			return c.strLess(y, x, false)
		case token.GEQ:
			return c.strLess(y, x, true)
		}
		c.unsupported("string binop " + op.String())
	}
	switch op {
	case token.EQL:
		return c.eq(a, b)
	case token.NEQ:
		return c.tb.Not(c.eq(a, b))
	}
	c.unsupported(fmt.Sprintf("binop %s on %T", op, a))
	return nil
}

// strLess: lexicographic byte comparison.
func (c *Ctx) strLess(x, y StringV, orEq bool) *Term {
	// result for suffixes, built from the end
	n := min(len(x.b), len(y.b))
	var tail *Term
	if len(x.b) < len(y.b) {
		tail = c.tb.tt
	} else if len(x.b) == len(y.b) {
		tail = c.tb.Bool(orEq)
	} else {
		tail = c.tb.ff
	}
	for i := n - 1; i >= 0; i-- {
		lt := c.tb.Cmp(OpBvUlt, x.b[i], y.b[i])
		eq := c.tb.Eq(x.b[i], y.b[i])
		tail = c.tb.Or(lt, c.tb.And(eq, tail))
	}
	return tail
}

func (c *Ctx) convert(v Value, from, to types.Type) Value {
	fu, tu := under(from), under(to)
	if tn, tsigned, ok := isInt(to); ok {
		_ = tsigned
		if fn, fsigned, ok := isInt(from); ok {
			x := v.(*Term)
			if tn == fn {
				return x
			}
			if tn < fn {
				return c.tb.Extract(x, tn-1, 0)
			}
			if fsigned {
				return c.tb.Sext(x, tn)
			}
			return c.tb.Zext(x, tn)
		}
		if f, ok := v.(FloatV); ok {
			if tsigned {
				return c.tb.Const(uint64(int64(f.f)), tn)
			}
			return c.tb.Const(uint64(f.f), tn)
		}
		if _, ok := fu.(*types.Basic); ok && fu.(*types.Basic).Kind() == types.UnsafePointer {
			c.unsupported("unsafe.Pointer to integer")
		}
	}
	if bitsN, ok := isFloat(to); ok {
		if fn, fsigned, ok := isInt(from); ok {
			x := v.(*Term)
			if !x.IsConst() {
				c.unsupported("symbolic int to float conversion")
			}
			var f float64
			if fsigned {
				f = float64(signExt(x.val, fn))
			} else {
				f = float64(x.val)
			}
			if bitsN == 32 {
				f = float64(float32(f))
			}
			return FloatV{f, bitsN}
		}
		if f, ok := v.(FloatV); ok {
			if bitsN == 32 {
				return FloatV{float64(float32(f.f)), 32}
			}
			return FloatV{f.f, 64}
		}
	}
	if isString(to) {
		switch x := v.(type) {
		case StringV:
			return x
		case SliceV: // []byte or []rune -> string
			el := under(fu.(*types.Slice).Elem()).(*types.Basic)
			if el.Kind() != types.Uint8 {
				c.unsupported("[]rune to string")
			}
			els := c.sliceElems(x)
			b := make([]*Term, len(els))
			for i, e := range els {
				b[i] = e.(*Term)
			}
			return StringV{b: b}
		case *Term: // integer -> string (rune)
			if x.IsConst() && x.val < 0x80 {
				return c.strConst(string(rune(x.val)))
			}
			c.unsupported("rune to string")
		}
	}
	if ts, ok := tu.(*types.Slice); ok {
		if s, ok := v.(StringV); ok {
			el := under(ts.Elem()).(*types.Basic)
			if el.Kind() != types.Uint8 {
				c.unsupported("string to []rune")
			}
			vals := make([]Value, len(s.b))
			for i, b := range s.b {
				vals[i] = b
			}
			return c.makeSliceFrom(ts.Elem(), vals)
		}
		return v
	}
	switch tu.(type) {
	case *types.Pointer:
		return v
	case *types.Basic:
		if tu.(*types.Basic).Kind() == types.UnsafePointer {
			return v
		}
	}
	c.unsupported(fmt.Sprintf("convert %s -> %s", from, to))
	return nil
}

func (c *Ctx) typeAssert(fr *frame, x *ssa.TypeAssert) Value {
	iv := c.get(fr, x.X).(IfaceV)
	ok := false
	var res Value
	if _, isIface := under(x.AssertedType).(*types.Interface); isIface {
		if iv.t != nil {
			it := under(x.AssertedType).(*types.Interface)
			if _, isErr := iv.v.(*ErrV); isErr {
				ok = it.NumMethods() == 0 || (it.NumMethods() == 1 && it.Method(0).Name() == "Error")
			} else if no, isNat := iv.v.(*NativeObj); isNat {
				ok = no.implements(it)
			} else {
				ok = types.Implements(iv.t, it)
			}
		}
		if ok {
			res = iv
		} else {
			res = IfaceV{}
		}
	} else {
		if iv.t != nil && types.Identical(iv.t, x.AssertedType) {
			ok = true
			res = iv.v
		} else {
			res = c.zero(x.AssertedType)
		}
	}
	if x.CommaOk {
		return TupleV{res, c.tb.Bool(ok)}
	}
	if !ok {
		c.goPanic(fmt.Sprintf("interface conversion: %v is not %s", iv.t, x.AssertedType), nil)
	}
	return res
}

// ---------- indexing ----------

func (c *Ctx) concretizeIndex(idx *Term, n int, what string) int {
	// bounds check (Go int index, signed 64)
	w := idx.sort.bits
	inRange := c.tb.And(c.tb.Cmp(OpBvSle, c.tb.Const(0, w), idx), c.tb.Cmp(OpBvSlt, idx, c.tb.Const(uint64(n), w)))
	if !c.branch(inRange) {
		c.goPanic(fmt.Sprintf("index out of range [%s] with length %d", what, n), nil)
	}
	return int(c.concretize(idx, what))
}

func (c *Ctx) indexTerm(v Value, t types.Type) *Term {
	x := v.(*Term)
	n, signed, _ := isInt(t)
	if n < 64 {
		if signed {
			return c.tb.Sext(x, 64)
		}
		return c.tb.Zext(x, 64)
	}
	if !signed {
		// uint64 index >= 2^63 is out of range for any length; treat as signed negative -> out of range.
	}
	return x
}

func (c *Ctx) indexAddr(fr *frame, x *ssa.IndexAddr) Value {
	base := c.get(fr, x.X)
	idx := c.indexTerm(c.get(fr, x.Index), x.Index.Type())
	switch b := base.(type) {
	case SliceV:
		i := c.concretizeIndex(idx, b.len, "slice")
		return b.base.sub(b.off + i)
	case PtrV: // pointer to array
		if b.obj == nil {
			c.goPanic("nil pointer dereference (array index)", nil)
		}
		n := int(under(x.X.Type().(*types.Pointer).Elem()).(*types.Array).Len())
		i := c.concretizeIndex(idx, n, "array")
		return b.sub(i)
	}
	panic(fmt.Sprintf("indexAddr on %T", base))
}

func (c *Ctx) index(fr *frame, x *ssa.Index) Value {
	base := c.get(fr, x.X)
	idx := c.indexTerm(c.get(fr, x.Index), x.Index.Type())
	switch b := base.(type) {
	case *ArrayV:
		i := c.concretizeIndex(idx, len(b.e), "array")
		return b.e[i]
	case StringV:
		return c.strIndex(b, idx)
	}
	panic(fmt.Sprintf("index on %T", base))
}

func (c *Ctx) strIndex(s StringV, idx *Term) Value {
	if idx.IsConst() {
		i := c.concretizeIndex(idx, len(s.b), "string")
		return s.b[i]
	}
	w := idx.sort.bits
	n := len(s.b)
	inRange := c.tb.And(c.tb.Cmp(OpBvSle, c.tb.Const(0, w), idx), c.tb.Cmp(OpBvSlt, idx, c.tb.Const(uint64(n), w)))
	if !c.branch(inRange) {
		c.goPanic("string index out of range", nil)
	}
	// ite chain
	r := s.b[n-1]
	for i := n - 2; i >= 0; i-- {
		r = c.tb.Ite(c.tb.Eq(idx, c.tb.Const(uint64(i), w)), s.b[i], r)
	}
	return r
}

func (c *Ctx) lookup(fr *frame, x *ssa.Lookup) Value {
	base := c.get(fr, x.X)
	if s, ok := base.(StringV); ok {
		return c.strIndex(s, c.indexTerm(c.get(fr, x.Index), x.Index.Type()))
	}
	m := base.(*MapV)
	key := c.get(fr, x.Index)
	mt := under(x.X.Type()).(*types.Map)
	v, ok := c.mapLookup(m, key)
	if !ok {
		v = c.zero(mt.Elem())
	}
	if x.CommaOk {
		return TupleV{v, c.tb.Bool(ok)}
	}
	return v
}

func (c *Ctx) sliceOp(fr *frame, x *ssa.Slice) Value {
	base := c.get(fr, x.X)
	getI := func(v ssa.Value, def int) int {
		if v == nil {
			return def
		}
		t := c.indexTerm(c.get(fr, v), v.Type())
		return int(int64(c.concretize(t, "slice-bound")))
	}
	switch b := base.(type) {
	case StringV:
		lo := getI(x.Low, 0)
		hi := getI(x.High, len(b.b))
		if lo < 0 || hi < lo || hi > len(b.b) {
			c.goPanic(fmt.Sprintf("slice bounds out of range [%d:%d] with string length %d", lo, hi, len(b.b)), nil)
		}
		return StringV{b: b.b[lo:hi]}
	case SliceV:
		lo := getI(x.Low, 0)
		hi := getI(x.High, b.len)
		mx := getI(x.Max, b.cap)
		if lo < 0 || hi < lo || mx < hi || mx > b.cap {
			c.goPanic(fmt.Sprintf("slice bounds out of range [%d:%d:%d] with capacity %d", lo, hi, mx, b.cap), nil)
		}
		if b.isNil() {
			return SliceV{}
		}
		return SliceV{base: b.base, off: b.off + lo, len: hi - lo, cap: mx - lo}
	case PtrV: // pointer to array
		if b.obj == nil {
			c.goPanic("nil pointer dereference (slice of array)", nil)
		}
		n := int(under(x.X.Type().(*types.Pointer).Elem()).(*types.Array).Len())
		lo := getI(x.Low, 0)
		hi := getI(x.High, n)
		mx := getI(x.Max, n)
		if lo < 0 || hi < lo || mx < hi || mx > n {
			c.goPanic("slice bounds out of range (array)", nil)
		}
		return SliceV{base: b, off: lo, len: hi - lo, cap: mx - lo}
	}
	panic(fmt.Sprintf("slice on %T", base))
}

// ---------- floats helper ----------
var _ = math.Abs

// trackAlloc records the byte size of an allocation while verifMaxAlloc is measuring.
func (c *Ctx) trackAlloc(n *Term, elem types.Type) {
	if !c.allocTracking {
		return
	}
	sz := c.shared.sizes.Sizeof(elem)
	if sz <= 0 {
		sz = 1
	}
	bytesT := c.tb.Bin(OpBvMul, n, c.tb.Const(uint64(sz), 64))
	if c.allocMaxTerm == nil {
		c.allocMaxTerm = bytesT
		return
	}
	c.allocMaxTerm = c.tb.Ite(c.tb.Cmp(OpBvUlt, c.allocMaxTerm, bytesT), bytesT, c.allocMaxTerm)
}
